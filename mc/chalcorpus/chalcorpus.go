// Package chalcorpus loads the committed challenge-seed corpus: the seeds LE64(i)||0^24, i < 2^30, whose SampleInBall
// stream rejects the most candidate positions (found by exhaustive search of the counter range, cmd/grindchallenge).
package chalcorpus

import (
	"bufio"
	"encoding/hex"
	"encoding/json"
	"os"
)

type Entry struct {
	Seed     string `json:"seed"`
	Read     int    `json:"xof_bytes_read"`
	Rejected int    `json:"rejected_positions"`
	Bytes    []byte `json:"-"`
}

func Load() []Entry {
	p := os.Getenv("VERIF_CHALLENGE_CORPUS")
	if p == "" {
		d := os.Getenv("VERIF_CORPUS_DIR")
		if d == "" {
			d = "/verif/corpus"
		}
		p = d + "/challenge-seeds.jsonl"
	}
	f, err := os.Open(p)
	if err != nil {
		return nil
	}
	defer f.Close()
	var out []Entry
	sc := bufio.NewScanner(f)
	for sc.Scan() {
		var e Entry
		if json.Unmarshal(sc.Bytes(), &e) == nil && len(e.Seed) == 64 {
			e.Bytes, _ = hex.DecodeString(e.Seed)
			out = append(out, e)
		}
	}
	return out
}
