// C01 — every XMSS signature over the key's whole life verifies (engine E1).
package main

import (
	"verifmc/e1cases"
)

func main() { e1cases.Main("C01") }
