// C01 — every XMSS signature over the key's whole life verifies (engine E1).
package main

import (
	"fmt"

	"github.com/theQRL/go-qrllib/common"
	"github.com/theQRL/go-qrllib/xmss"
	"verifmc/drv"
	"verifmc/e1cases"
	"verifmc/refxmss"
	"verifmc/seeds"
)

func main() {
	// Real keys of height 10 and 12: the indices at which the index field grows into its second byte, reached by one
	// jump from a fresh key and by signing across the boundary. (The walkers above reach them too, but with real hashes
	// only in the thorough tier.)
	targets := func(h int) []uint32 {
		t := []uint32{254, 510, 766, 1018}
		if h == 12 {
			t = append(t, 1022, 2046, 4090)
		}
		return t
	}
	mk := func(name, tier string, hs []int) *drv.Domain {
		return &drv.Domain{Name: name, Tier: tier, Size: int64(3 * len(hs)), Chunk: 1,
			Desc: "real keys (h=10 in both tiers, h=12 in the thorough tier) x 3 hash functions: SetIndex to 254, 510, 766, 1018 (h=12 also 1022, 2046, 4090) in ascending order on ONE key, four signatures after each jump (so every multiple of 256 is reached both by a jump landing just below it and by signing across it): every signature verifies under the library's Verify and under the reference verifier, and a changed message does not",
			Run: func(c *drv.Ctx, lo, hi int64) {
				for i := lo; i < hi; i++ {
					c.At(i)
					h, hf := hs[i/3], int(i%3)
					seed := seeds.Seed48(20+int(i), c.Seed)
					k := xmss.NewXMSSFromSeed(seed, uint8(h), xmss.HashFunction(hf), common.SHA256_2X)
					c.Tick()
					pk := k.GetPK()
					for _, t := range targets(h) {
						if out := drv.Call(func() { k.SetIndex(t) }); out != "ok" {
							c.Fail(i, "setindex-refused-inside-tree", map[string]any{"height": h, "hash": hf, "target": t, "observed": out})
							break
						}
						for s := uint32(0); s < 4; s++ {
							msg := []byte(fmt.Sprintf("c01 two-byte index %d", t+s))
							sig, err := k.Sign(msg)
							c.Eval(1)
							c.Nontrivial(1)
							info := map[string]any{"height": h, "hash": hf, "index": t + s, "reached_by": fmt.Sprintf("jump to %d then %d signatures", t, s)}
							if err != nil {
								c.Fail(i, "sign-failed", info)
								continue
							}
							okLib, okRef := xmss.Verify(msg, sig, pk), refxmss.Verify(msg, sig, pk[:], 16)
							bad := xmss.Verify(append([]byte("x"), msg...), sig, pk)
							if !okLib || !okRef || bad {
								info["library_verify"], info["reference_verify"], info["other_message_accepted"] = okLib, okRef, bad
								c.Fail(i, "signature-at-two-byte-index-does-not-verify", info)
							}
						}
						c.Tick()
					}
					c.Outcome("verified")
				}
			}}
	}
	e1cases.MainWith("C01", []*drv.Domain{mk("real-two-byte-indices", "", []int{10}), mk("real-two-byte-indices-h12", "t", []int{12})})
}
