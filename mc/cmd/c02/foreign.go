package main

import (
	"fmt"

	"github.com/theQRL/go-qrllib/common"
	"github.com/theQRL/go-qrllib/xmss"
	"verifmc/drv"
	"verifmc/seeds"
)

// foreignDomain: the counter of one key object while OTHER keys / signatures of other heights are used in between.
func foreignDomain() *drv.Domain {
	kinds := []string{"Verify(signature of a height-6 key)", "NewXMSSFromSeed(height 6) + Sign", "VerifyWithCustomWOTSParamW(4) on a height-8 sized blob", "NewXMSSFromSeed(height 8)"}
	return &drv.Domain{Name: "foreign-height-interference", Size: int64(18 * len(kinds)), Chunk: 6,
		Desc: "a height-4 key object signs to exhaustion while, after its p-th signature (p = 0..17), an operation on ANOTHER height runs (verification of a height-6 signature; a height-6 key built and used; a custom-w verification sized for height 8; a height-8 key built): the index still follows the counter, every signature verifies, the call after the last index is refused and refused calls leave the index where it was (parameters shared between objects of different heights show here)",
		Run: func(c *drv.Ctx, lo, hi int64) {
			var fpk [67]byte
			var fsig []byte
			fmsg := []byte("foreign")
			for i := lo; i < hi; i++ {
				c.At(i)
				p, kind := int(i%18), int(i/18)
				if fsig == nil {
					fk := xmss.NewXMSSFromSeed(seeds.Seed48(2, c.Seed), 6, xmss.SHAKE_128, common.SHA256_2X)
					fsig, _ = fk.Sign(fmsg)
					fpk = fk.GetPK()
				}
				k := xmss.NewXMSSFromSeed(seeds.Seed48(3, c.Seed), 4, xmss.HashFunction(i%3), common.SHA256_2X)
				pk := k.GetPK()
				foreign := func() {
					drv.Call(func() {
						switch kind {
						case 0:
							xmss.Verify(fmsg, fsig, fpk)
						case 1:
							o := xmss.NewXMSSFromSeed(seeds.Seed48(1, c.Seed), 6, xmss.SHA2_256, common.SHA256_2X)
							o.Sign(fmsg)
						case 2:
							var bp [67]byte
							bp[0], bp[1] = 1, 4
							xmss.VerifyWithCustomWOTSParamW(fmsg, make([]byte, 4+32+133*32+8*32), bp, 4)
						case 3:
							xmss.NewXMSSFromSeed(seeds.Seed48(1, c.Seed), 8, xmss.SHAKE_256, common.SHA256_2X)
						}
					})
				}
				want := uint32(0)
				ok := true
				for step := 0; step < 19 && ok; step++ {
					if step == p {
						foreign()
					}
					var sig []byte
					var err error
					out := drv.Call(func() { sig, err = k.Sign([]byte("counter")) })
					c.Eval(1)
					c.Nontrivial(1)
					info := map[string]any{"foreign_operation": kinds[kind], "after_signature_number": p, "step": step, "model_index": want, "library_index": k.GetIndex(), "observed": fmt.Sprint(out, " ", err)}
					if want >= 16 {
						if out == "ok" && err == nil {
							c.Fail(i, "C02:signed-beyond-the-last-index", info)
							ok = false
						} else if k.GetIndex() != 16 {
							c.Fail(i, "C02:refused-sign-moved-the-index", info)
							ok = false
						}
						continue
					}
					if out != "ok" || err != nil || len(sig) < 4 {
						c.Fail(i, "C02:sign-refused-inside-the-tree", info)
						ok = false
						continue
					}
					got := uint32(sig[0])<<24 | uint32(sig[1])<<16 | uint32(sig[2])<<8 | uint32(sig[3])
					want++
					if got != want-1 || k.GetIndex() != want || !xmss.Verify([]byte("counter"), sig, pk) {
						info["signature_index_field"] = got
						info["verifies"] = xmss.Verify([]byte("counter"), sig, pk)
						c.Fail(i, "C02:index-does-not-follow-the-counter-after-foreign-operation", info)
						ok = false
					}
				}
				c.Outcome(kinds[kind])
			}
		}}
}
