// C02 — engine E1 (see e1 / e1cases).
package main

import (
	"verifmc/drv"
	"verifmc/e1cases"
)

var optDomains []*drv.Domain

func main() {
	if len(optDomains) == 0 {
		optDomains = append(optDomains, &drv.Domain{Name: "optional-domains-skipped", Size: 1, Run: func(c *drv.Ctx, lo, hi int64) {
			c.Cap("the hand-built key hook does not fit this tree: index-bookkeeping-tall skipped")
			c.Outcome("skipped")
		}})
	}
	e1cases.MainWith("C02", append(optDomains, foreignDomain()))
}
