//go:build !no_xmss_handbuilt

package main

import (
	"fmt"

	"github.com/theQRL/go-qrllib/xmss"
	"verifmc/drv"
)

func init() {
	// start indices just below every byte boundary of the 32-bit index, and just below exhaustion
	type cse struct {
		h     int
		start uint32
	}
	var cs []cse
	for h := 10; h <= 30; h += 2 {
		top := uint32(1) << uint(h)
		for _, b := range []uint32{1 << 8, 1 << 16, 1 << 24} {
			if b < top {
				cs = append(cs, cse{h, b - 2})
			}
		}
		cs = append(cs, cse{h, top - 4})
	}
	optDomains = append(optDomains, &drv.Domain{Name: "index-bookkeeping-tall", Size: int64(len(cs)) * 3, Chunk: 3,
		Desc: "the one-time index at heights whose real keys cannot be generated: hand-assembled key objects (empty traversal state, optional hook) of every height 10..30 x 3 hash functions, started just below 2^8, 2^16, 2^24 and just below 2^h; Sign, SetIndex(+3 across the boundary), Sign, then signing to exhaustion: GetIndex and the index field of every signature follow the counter exactly, nothing is reused or rewound, and the first call past 2^h-1 is refused (signature validity is not looked at here)",
		Run: func(c *drv.Ctx, lo, hi int64) {
			for i := lo; i < hi; i++ {
				c.At(i)
				g, hf := cs[i/3], int(i%3)
				top := uint64(1) << uint(g.h)
				k := xmss.VerifHandBuilt(uint8(g.h), xmss.HashFunction(hf), g.start)
				want := uint64(g.start) // model: the next unused index
				info := func(extra string) map[string]any {
					return map[string]any{"height": g.h, "hash": hf, "start_index": g.start, "model_index": want, "library_index": k.GetIndex(), "step": extra}
				}
				sign := func(step string) bool {
					var sig []byte
					var err error
					out := drv.Call(func() { sig, err = k.Sign([]byte("bookkeeping")) })
					c.Eval(1)
					c.Nontrivial(1)
					if want >= top {
						if out == "ok" && err == nil {
							c.Fail(i, "C02:signed-beyond-the-last-index", info(step))
							return false
						}
						return true
					}
					if out != "ok" || err != nil || len(sig) < 4 {
						c.Fail(i, "C02:sign-refused-inside-the-tree", info(step+" "+out))
						return false
					}
					got := uint64(sig[0])<<24 | uint64(sig[1])<<16 | uint64(sig[2])<<8 | uint64(sig[3])
					want++
					if got != want-1 || uint64(k.GetIndex()) != want {
						m := info(step)
						m["signature_index_field"] = got
						c.Fail(i, "C02:index-does-not-follow-the-counter", m)
						return false
					}
					return true
				}
				ok := sign("first signature")
				if ok && want+3 < top {
					tgt := uint32(want + 3)
					if out := drv.Call(func() { k.SetIndex(tgt) }); out != "ok" {
						c.Fail(i, "C02:forward-setindex-refused", info(fmt.Sprint("SetIndex ", tgt, " ", out)))
						ok = false
					} else {
						want = uint64(tgt)
						if uint64(k.GetIndex()) != want {
							c.Fail(i, "C02:index-after-setindex-is-not-the-target", info(fmt.Sprint("SetIndex ", tgt)))
							ok = false
						}
					}
					c.Eval(1)
				}
				for n := 0; ok && n < 8; n++ {
					ok = sign(fmt.Sprintf("signature %d after the jump", n+1))
				}
				c.Outcome(fmt.Sprintf("h=%d", g.h))
			}
		}})
}
