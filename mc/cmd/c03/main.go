// C03 — every Dilithium signature and sealed message verifies.
// Engine E3: full cross product of the (seed, message) scope + the boundary corpus (inputs known to
// take each exit of the rejection loop); the specification model supplies the path coverage.
package main

import (
	"bufio"
	"bytes"
	"encoding/hex"
	"encoding/json"
	"fmt"
	"os"
	"runtime"
	"strings"

	"github.com/theQRL/go-qrllib/dilithium"
	"verifmc/dilscope"
	"verifmc/drv"
	"verifmc/refdil"
)

var libs = map[[48]byte]*dilithium.Dilithium{}
var refs = map[[48]byte]*refdil.Key{}

func lib(seed [48]byte) *dilithium.Dilithium {
	if d, ok := libs[seed]; ok {
		return d
	}
	d, err := dilithium.NewDilithiumFromSeed(seed)
	if err != nil {
		panic(err)
	}
	libs[seed] = d
	return d
}

func ref(seed [48]byte) *refdil.Key {
	if k, ok := refs[seed]; ok {
		return k
	}
	k := refdil.KeyGenFromWalletSeed(seed[:])
	refs[seed] = k
	return k
}

func roundTrip(c *drv.Ctx, i int64, seed [48]byte, msg []byte, withPath bool, label string) {
	d := lib(seed)
	m0 := append([]byte(nil), msg...)
	pk := d.GetPK()
	c.Eval(1)
	fail := func(key string, extra map[string]any) {
		if extra == nil {
			extra = map[string]any{}
		}
		extra["case"] = label
		extra["seed"] = hex.EncodeToString(seed[:])
		extra["message"] = drv.Hex(m0)
		c.Fail(i, key, extra)
	}
	var sig, sig2 [dilithium.CryptoBytes]byte
	var sm []byte
	var err, err2, err3 error
	out := drv.Call(func() {
		sig, err = d.Sign(msg)
		sm, err2 = d.Seal(msg)
		sig2, err3 = d.Sign(msg)
	})
	if out != "ok" || err != nil || err2 != nil || err3 != nil {
		fail("sign-or-seal-failed", map[string]any{"observed": fmt.Sprint(out, err, err2, err3)})
		return
	}
	if !bytes.Equal(msg, m0) {
		fail("sign-modified-message-buffer", nil)
	}
	if sig != sig2 {
		fail("signing-not-deterministic", nil)
	}
	if !dilithium.Verify(msg, sig, &pk) {
		fail("signature-does-not-verify", nil)
	}
	if len(sm) != dilithium.CryptoBytes+len(msg) {
		fail("sealed-length", map[string]any{"observed": len(sm)})
		return
	}
	op := dilithium.Open(sm, &pk)
	if op == nil || !bytes.Equal(op, m0) {
		fail("open-of-seal-is-not-the-message", map[string]any{"observed_nil": op == nil})
	}
	if !bytes.Equal(dilithium.ExtractSignature(sm), sig[:]) {
		fail("extractsignature-differs-from-sign", nil)
	}
	if !bytes.Equal(dilithium.ExtractMessage(sm), m0) {
		fail("extractmessage-differs-from-message", nil)
	}
	// negative control: another message must not verify
	other := append(append([]byte(nil), m0...), 1)
	if dilithium.Verify(other, sig, &pk) {
		fail("signature-verifies-for-other-message", nil)
	}
	if withPath {
		r := ref(seed).Sign(m0, refdil.Skip{})
		var ex []string
		for _, it := range r.Path {
			ex = append(ex, it.Exit)
			c.SetAdd("exits", it.Exit)
		}
		c.SetAdd("paths", strings.Join(ex, ">"))
		if len(r.Path) >= 2 {
			c.Nontrivial(1)
		}
		c.Outcome(fmt.Sprintf("iterations=%d", len(r.Path)))
	} else {
		c.Nontrivial(1)
		c.Outcome("verified")
	}
}

type corpusEntry struct{ Seed, Msg, Kind string }

func loadCorpus() []corpusEntry {
	f, err := os.Open(drv.CorpusPath("c07.jsonl"))
	if err != nil {
		return nil
	}
	defer f.Close()
	var out []corpusEntry
	sc := bufio.NewScanner(f)
	sc.Buffer(make([]byte, 1<<20), 1<<20)
	for sc.Scan() {
		var e corpusEntry
		if json.Unmarshal(sc.Bytes(), &e) == nil && e.Seed != "" {
			out = append(out, e)
		}
	}
	return out
}

var optDomains []*drv.Domain

func main() {
	ck := &drv.Check{Property: "C03", Level: "model_checking",
		Rule: "bounded exhaustive enumeration: the full cross product seeds x messages of a fixed scope (lengths 0,1,7,31,32,33,135,136,137,271,272,273,4595,10000 x two fills) plus the boundary corpus; " +
			"per case Sign, Seal, Verify, Open, ExtractSignature, ExtractMessage, Sign again; the specification model classifies the rejection-loop path of each case. non-trivial = a case whose loop ran >= 2 iterations (where the path is computed) or a verified round trip",
		Assumptions: []string{"the seed space is 2^384: exhaustive over the scope's cross product and over the loop's exits (accept-first-try, z-norm, low-bits, hint-count); ct0-norm exit is dead code at level 5"}}
	scope := func(name, tier string, ns, nm int, pathEvery int) {
		ck.Domains = append(ck.Domains, &drv.Domain{Name: name, Tier: tier, Size: int64(ns * nm), Chunk: int64(nm), Desc: fmt.Sprintf("%d seeds x %d messages", ns, nm),
			Run: func(c *drv.Ctx, lo, hi int64) {
				for i := lo; i < hi; i++ {
					c.At(i)
					si, mi := int(i)/nm, int(i)%nm
					roundTrip(c, i, dilscope.Seed(si, c.Seed), dilscope.Msg(mi, c.Seed), int(i)%pathEvery == 0, fmt.Sprintf("scope seed#%d msg#%d", si, mi))
					if i == 5 {
						c.Sample(map[string]any{"seed#": si, "msg#": mi, "message_len": len(dilscope.Msg(mi, c.Seed))})
					}
				}
			}})
	}
	scope("scope-q", "q", 16, dilscope.NMsgs, 7)
	scope("scope-t", "t", 256, dilscope.NMsgs, 1)
	corpus := loadCorpus()
	ck.Domains = append(ck.Domains, &drv.Domain{Name: "boundary-corpus", Size: int64(len(corpus)) + 1, Chunk: 4, Desc: "inputs on which a rejection test is met with slack -1/0 (from the C07 corpus): multi-iteration paths through every exit",
		Run: func(c *drv.Ctx, lo, hi int64) {
			for i := lo; i < hi; i++ {
				c.At(i)
				if i == int64(len(corpus)) {
					continue
				}
				e := corpus[i]
				sb, _ := hex.DecodeString(e.Seed)
				msg, _ := hex.DecodeString(e.Msg)
				var seed [48]byte
				copy(seed[:], sb)
				roundTrip(c, i, seed, msg, true, "corpus "+e.Kind)
				c.Sample(map[string]any{"kind": e.Kind, "seed": e.Seed, "msg": e.Msg})
			}
		}})
	// histories on ONE key object: every sequence of <= 3 operations over {Sign, Seal} x 6 message shapes
	hmsgs := [][]byte{{}, []byte("short"), bytes.Repeat([]byte{7}, 32), bytes.Repeat([]byte("abc"), 100), bytes.Repeat([]byte{0xEE}, 4700), []byte("short2")}
	nop := int64(2 * len(hmsgs))
	ck.Domains = append(ck.Domains, &drv.Domain{Name: "histories-4", Tier: "t", Size: nop * nop * nop * nop, Chunk: 64,
		Desc: "every sequence of exactly 4 operations over {Sign(m), Seal(m)} x 6 message shapes on ONE key object (thorough)",
		Run:  func(c *drv.Ctx, lo, hi int64) { histRun(c, lo, hi, hmsgs, nop, nop+nop*nop+nop*nop*nop) }})
	ck.Domains = append(ck.Domains, &drv.Domain{Name: "histories", Size: nop + nop*nop + nop*nop*nop, Chunk: 64,
		Desc: "every sequence of 1..3 operations over {Sign(m), Seal(m)} x 6 message shapes (empty, 5 B, 32 B, 300 B, 4700 B, 6 B) on ONE key object: every result equals the result of the same call on a fresh key object and verifies",
		Run:  func(c *drv.Ctx, lo, hi int64) { histRun(c, lo, hi, hmsgs, nop, 0) }})
	ck.Domains = append(ck.Domains, &drv.Domain{Name: "key-sequences", Size: 6 * 6 * 2, Chunk: 6,
		Desc: "every ordered pair of 6 keys: verify/open a signature of key A through a pk VARIABLE, overwrite the same variable with key B's public key, verify/open B's signature (and the other way round with a fresh variable): both must be accepted",
		Run: func(c *drv.Ctx, lo, hi int64) {
			for i := lo; i < hi; i++ {
				c.At(i)
				a, b, reuse := int(i%6), int(i/6%6), i/36 == 0
				ka, kb := lib(dilscope.Seed(a, c.Seed)), lib(dilscope.Seed(b, c.Seed))
				ma, mb := []byte("key sequence message A"), []byte{}
				sa, _ := ka.Sign(ma)
				sb, _ := kb.Sign(mb)
				sma, _ := ka.Seal(ma)
				smb, _ := kb.Seal(mb)
				pk := ka.GetPK()
				v1 := dilithium.Verify(ma, sa, &pk)
				o1 := dilithium.Open(sma, &pk)
				var v2 bool
				var o2 []byte
				if reuse {
					pk = kb.GetPK()
					v2 = dilithium.Verify(mb, sb, &pk)
					o2 = dilithium.Open(smb, &pk)
				} else {
					pk2 := kb.GetPK()
					v2 = dilithium.Verify(mb, sb, &pk2)
					o2 = dilithium.Open(smb, &pk2)
				}
				c.Eval(4)
				c.Nontrivial(1)
				if !v1 || o1 == nil || !v2 || o2 == nil {
					c.Fail(i, "key-sequence:valid-signature-rejected", map[string]any{"key_a": a, "key_b": b, "same_variable": reuse, "verify_a": v1, "open_a_nil": o1 == nil, "verify_b": v2, "open_b_nil(empty message)": o2 == nil})
				}
				c.Outcome("ok")
			}
		}})
	ck.Domains = append(ck.Domains, &drv.Domain{Name: "key-object-storage-reuse", Size: 4*4 + 1, Chunk: 4,
		Desc: "key objects whose STORAGE is reused: for every ordered pair (a,b) of 4 keys a fresh object of key a signs, is overwritten in place by key b (*d = *other; for a == b: a value copy signs instead), and signs / seals again; plus 32 short-lived objects of rotating keys created, used and dropped with garbage collections in between: every signature verifies under the object's own current public key, every sealed message opens to the message, and the extracted parts are the signature and the message",
		Run: func(c *drv.Ctx, lo, hi int64) {
			mk := func(k int) *dilithium.Dilithium { d, _ := dilithium.NewDilithiumFromSeed(dilscope.Seed(k, c.Seed)); return d }
			msg := []byte("storage reuse message (C03)")
			use := func(i int64, what string, d *dilithium.Dilithium) {
				sig, e1 := d.Sign(msg)
				sm, e2 := d.Seal(msg)
				pk := d.GetPK()
				c.Eval(2)
				ok := e1 == nil && e2 == nil && dilithium.Verify(msg, sig, &pk) && bytes.Equal(dilithium.Open(sm, &pk), msg) &&
					bytes.Equal(dilithium.ExtractSignature(sm), sig[:]) && bytes.Equal(dilithium.ExtractMessage(sm), msg)
				if !ok {
					c.Fail(i, "storage-reuse:signature-or-sealed-message-not-accepted-under-the-object's-own-public-key", map[string]any{"step": what, "verify": e1 == nil && dilithium.Verify(msg, sig, &pk)})
				}
			}
			for i := lo; i < hi; i++ {
				c.At(i)
				c.Nontrivial(1)
				if i == 16 {
					for j := 0; j < 32; j++ {
						d := mk(j % 3)
						use(i, fmt.Sprintf("short-lived object %d (key %d)", j, j%3), d)
						d = nil
						runtime.GC()
						runtime.GC()
					}
					c.Outcome("ok")
					continue
				}
				a, b := int(i%4), int(i/4)
				d := mk(a)
				use(i, fmt.Sprintf("key %d", a), d)
				if a == b {
					cp := *d
					use(i, fmt.Sprintf("value copy of key %d", a), &cp)
				} else {
					*d = *mk(b)
					use(i, fmt.Sprintf("after *d = *key%d (was key %d)", b, a), d)
				}
				c.Outcome("ok")
			}
		}})
	ck.Finish = func(cov map[string]any, m map[string]*drv.DomStats) {
		all := map[string]bool{}
		paths := map[string]bool{}
		for _, d := range m {
			for k := range d.Sets["exits"] {
				all[k] = true
			}
			for k := range d.Sets["paths"] {
				paths[k] = true
			}
		}
		missing := []string{}
		for _, e := range []string{"accept", "z", "r0", "hint"} {
			if !all[e] {
				missing = append(missing, e)
			}
		}
		cov["paths_missing"] = missing
		cov["distinct_loop_paths"] = len(paths)
		cov["loop_exit_ct0"] = "unreachable at level 5"
		if len(missing) > 0 {
			cov["exhaustive"] = false
			fmt.Println("warning: rejection-loop exits not covered in this run:", missing)
		}
	}
	if len(optDomains) < 1 {
		ck.Domains = append(ck.Domains, &drv.Domain{Name: "optional-domains-skipped", Size: 1, Run: func(c *drv.Ctx, lo, hi int64) {
			c.Cap("the norm-test seam does not fit this tree: forced-rejections skipped")
			c.Outcome("skipped")
		}})
	}
	ck.Domains = append(ck.Domains, optDomains...)
	drv.Main(ck)
}

func histRun(c *drv.Ctx, lo, hi int64, hmsgs [][]byte, nop int64, offset int64) {
	seed := dilscope.Seed(2, c.Seed)
	// fresh-object reference results
	var want [][]byte
	for o := int64(0); o < nop; o++ {
		d, _ := dilithium.NewDilithiumFromSeed(seed)
		m := hmsgs[o/2]
		if o%2 == 0 {
			sg, _ := d.Sign(m)
			want = append(want, sg[:])
		} else {
			sm, _ := d.Seal(m)
			want = append(want, sm)
		}
	}
	for i := lo; i < hi; i++ {
		c.At(i)
		k := i + offset
		n := 1
		for base := nop; k >= base; base *= nop {
			k -= base
			n++
		}
		d, _ := dilithium.NewDilithiumFromSeed(seed)
		pk := d.GetPK()
		var names []string
		for t := 0; t < n; t++ {
			o := k % nop
			k /= nop
			m := append([]byte(nil), hmsgs[o/2]...)
			var got []byte
			if o%2 == 0 {
				sg, _ := d.Sign(m)
				got = sg[:]
				names = append(names, fmt.Sprintf("Sign(%dB)", len(m)))
				if !dilithium.Verify(m, sg, &pk) {
					c.Fail(i, "history:signature-does-not-verify", map[string]any{"sequence": names})
				}
			} else {
				got, _ = d.Seal(m)
				names = append(names, fmt.Sprintf("Seal(%dB)", len(m)))
				if op := dilithium.Open(got, &pk); op == nil || !bytes.Equal(op, hmsgs[o/2]) {
					c.Fail(i, "history:sealed-message-does-not-open", map[string]any{"sequence": names})
				}
			}
			if !bytes.Equal(got, want[o]) {
				c.Fail(i, "history:result-depends-on-earlier-calls", map[string]any{"sequence": names, "position": t})
			}
		}
		c.Eval(int64(n))
		if n > 1 {
			c.Nontrivial(1)
		}
		c.Outcome(fmt.Sprintf("len=%d", n))
		if i == 200 {
			c.Sample(map[string]any{"sequence": names})
		}
	}
}
