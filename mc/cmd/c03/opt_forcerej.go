//go:build !no_dil_forcerej

package main

import (
	"bytes"
	"encoding/hex"
	"fmt"

	"github.com/theQRL/go-qrllib/dilithium"
	"verifmc/dilscope"
	"verifmc/drv"
)

func init() {
	var ks []int
	for k := 0; k <= 80; k++ {
		ks = append(ks, k)
	}
	ks = append(ks, 100, 127, 128, 146, 255, 256, 257, 300, 511, 512, 1000)
	optDomains = append(optDomains, &drv.Domain{Name: "forced-rejections", Size: int64(len(ks) * 4), Chunk: 4,
		Desc: "the signer's z-norm test is made to answer 'reject' for the first k iterations (k = 0..80, and 100..1000 around the byte boundaries of the mask nonce), 2 seeds x 2 messages: Sign and Seal still return, the signature verifies and the sealed form opens to the message (a signature found at a later iteration is as valid as one found earlier)",
		Run: func(c *drv.Ctx, lo, hi int64) {
			for i := lo; i < hi; i++ {
				c.At(i)
				k := ks[i/4]
				seed := dilscope.Seed(int(i%2), 0)
				msg := []byte(fmt.Sprintf("verif-c03-forced-%d", (i/2)%2))
				d := lib(seed)
				pk := d.GetPK()
				var sig [dilithium.CryptoBytes]uint8
				var sm []byte
				var err, err2 error
				dilithium.VerifForceReject = k
				out := drv.Call(func() { sig, err = d.Sign(msg) })
				left := dilithium.VerifForceReject
				dilithium.VerifForceReject = k
				out2 := drv.Call(func() { sm, err2 = d.Seal(msg) })
				left += dilithium.VerifForceReject
				dilithium.VerifForceReject = 0
				c.Eval(1)
				c.Nontrivial(1)
				info := map[string]any{"forced_rejections": k, "seed": hex.EncodeToString(seed[:]), "message": drv.Hex(msg), "observed": fmt.Sprint(out, " ", err, " ", out2, " ", err2), "forced_rejections_not_consumed": left}
				switch {
				case out != "ok" || err != nil || out2 != "ok" || err2 != nil || left != 0:
					c.Fail(i, "sign-or-seal-failed-after-forced-rejections", info)
				case !dilithium.Verify(msg, sig, &pk):
					c.Fail(i, "signature-after-forced-rejections-does-not-verify", info)
				case len(sm) != dilithium.CryptoBytes+len(msg) || !bytes.Equal(dilithium.Open(sm, &pk), msg):
					c.Fail(i, "open-of-seal-after-forced-rejections-is-not-the-message", info)
				case !bytes.Equal(sm[:dilithium.CryptoBytes], sig[:]):
					c.Fail(i, "seal-and-sign-differ-after-forced-rejections", info)
				}
				if k < 80 {
					c.Outcome("short-run")
				} else {
					c.Outcome("long-run")
				}
			}
		}})
}
