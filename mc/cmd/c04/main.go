// C04 — XMSS Verify accepts exactly what the scheme defines as valid.
// Engine E3, deviation-bounded: from valid (msg, sig, pk) triples every member of each deviation
// family is enumerated; oracle: library accepts <=> independent spec-level verifier (refxmss) accepts.
package main

import (
	"encoding/binary"
	"fmt"

	"github.com/theQRL/go-qrllib/common"
	"github.com/theQRL/go-qrllib/xmss"
	"verifmc/drv"
	"verifmc/refxmss"
	"verifmc/seeds"
)

type base struct {
	h, hf int
	idx   uint32
	msg   []byte
	sig   []byte
	pk    [67]byte
}

var bases = map[string]*base{}

func getBase(h, hf int, idx uint32, vseed int64) *base {
	key := fmt.Sprint(h, hf, idx)
	if b, ok := bases[key]; ok {
		return b
	}
	seed := seeds.Seed48(3+hf, vseed)
	k := xmss.NewXMSSFromSeed(seed, uint8(h), xmss.HashFunction(hf), common.SHA256_2X)
	k.SetIndex(idx)
	msg := []byte(fmt.Sprintf("C04 base message h=%d hf=%d idx=%02d ..", h, hf, idx))
	sig, err := k.Sign(msg)
	if err != nil {
		panic(err)
	}
	b := &base{h, hf, idx, msg, sig, k.GetPK()}
	bases[key] = b
	return b
}

// libVerify: "true" | "false" | "refused:<msg>" | "fault:<..>"
func libVerify(msg, sig []byte, pk [67]byte, w uint32) string {
	var r bool
	out := drv.Call(func() {
		if w == 0 {
			r = xmss.Verify(msg, sig, pk)
		} else {
			r = xmss.VerifyWithCustomWOTSParamW(msg, sig, pk, w)
		}
	})
	switch {
	case out == "ok":
		return fmt.Sprint(r)
	case len(out) > 13 && out[:13] == "panic-string:":
		return "refused:" + out[13:]
	}
	return "fault:" + out
}

// compare runs library and reference on one triple and reports a disagreement.
func compare(c *drv.Ctx, i int64, fam, what string, msg, sig []byte, pk [67]byte, mustReject bool) {
	compareW(c, i, fam, what, msg, sig, pk, mustReject, 0)
}

// compareW: w = 0 is xmss.Verify; otherwise VerifyWithCustomWOTSParamW(w) against the reference verifier for that w.
func compareW(c *drv.Ctx, i int64, fam, what string, msg, sig []byte, pk [67]byte, mustReject bool, w uint32) {
	c.Eval(1)
	m0, s0 := append([]byte(nil), msg...), append([]byte(nil), sig...)
	lib := libVerify(msg, sig, pk, w)
	rw := int(w)
	if rw == 0 {
		rw = 16
	}
	ref := refxmss.Verify(m0, s0, pk[:], rw)
	c.Outcome(fmt.Sprintf("lib=%.12s ref=%v", lib, ref))
	if (lib == "true") != ref {
		key := fmt.Sprintf("%s:lib-%s-ref-%v", fam, short(lib), ref)
		if fam == "desc-sweep" {
			key = fmt.Sprintf("%s hash=%d sigtype=%d", key, pk[0]&15, pk[0]>>4)
		}
		c.Fail(i, key, map[string]any{"deviation": what, "message": drv.FullHex(m0), "signature": drv.Hex(s0), "public_key": drv.FullHex(pk[:]),
			"expected": fmt.Sprintf("accept=%v (reference verifier)", ref), "observed": lib})
	} else if mustReject && lib == "true" {
		c.Fail(i, fam+":deviation-accepted-by-both", map[string]any{"deviation": what, "note": "reference and library both accept a deviation that must be rejected"})
	}
	if len(lib) > 5 && lib[:5] == "fault" {
		c.Count("runtime_faults(C14)", 1)
	}
}

func short12(s string) string {
	if len(s) > 12 {
		return s[:12]
	}
	return s
}

func short(s string) string {
	if len(s) > 7 && s[:7] == "refused" {
		return "refused"
	}
	if len(s) > 5 && s[:5] == "fault" {
		return "fault"
	}
	return s
}

type bsel struct {
	h, hf int
	idx   uint32
}

func sel(tier string) []bsel {
	var out []bsel
	for hf := 0; hf < 3; hf++ {
		out = append(out, bsel{4, hf, uint32([]int{0, 15, 6}[hf])})
	}
	if tier == "thorough" {
		for hf := 0; hf < 3; hf++ {
			out = append(out, bsel{6, hf, uint32([]int{63, 1, 32}[hf])}, bsel{4, hf, 1})
		}
	}
	return out
}

func main() {
	ck := &drv.Check{Property: "C04", Level: "model_checking",
		Rule: "deviation-bounded exhaustive enumeration from valid (msg,sig,pk) triples of real keys: every single-bit flip of sig / msg / pk, every index value, every pair of swapped chain blocks, every chain advanced one step, " +
			"every auth-node substitution, the full cross matrix over keys, and all 2^16 descriptor byte pairs x {honest root, zero root}; oracle: library accepts <=> refxmss verifier accepts. " +
			"non-trivial = a case that reaches hashing (passes the structural guards) or an accepting case",
		Assumptions: []string{"pk bits the scheme interprets = hash nibble, signature-type nibble, height nibble, root, public seed; the address-format nibble and descriptor byte 2 are ignored by both verifiers",
			"sha2/sha3 trusted", "bases: h=4 (quick) and h=4,6 (thorough), three hash functions"}}
	flipFamily := func(name, desc string, nbits func(b *base) int, mut func(b *base, bit int) ([]byte, []byte, [67]byte, bool)) {
		for _, tier := range []string{"q", "t"} {
			t := map[string]string{"q": "quick", "t": "thorough"}[tier]
			ss := sel(t)
			// size: per base nbits (all bases have same nbits per h; compute lazily with max)
			per := 0
			for _, s := range ss {
				n := nbits(&base{h: s.h, sig: make([]byte, refxmss.SigSize(16, s.h)), msg: make([]byte, 40)})
				if n > per {
					per = n
				}
			}
			ssc, perc := ss, per
			ck.Domains = append(ck.Domains, &drv.Domain{Name: name + "-" + tier, Tier: tier, Size: int64(len(ssc) * perc), Desc: desc,
				Run: func(c *drv.Ctx, lo, hi int64) {
					for i := lo; i < hi; i++ {
						c.At(i)
						s := ssc[int(i)/perc]
						b := getBase(s.h, s.hf, s.idx, c.Seed)
						bit := int(i) % perc
						if bit >= nbits(b) {
							continue
						}
						msg, sig, pk, interpreted := mut(b, bit)
						compare(c, i, name, fmt.Sprintf("base(h=%d,hash=%d,idx=%d) %s #%d", s.h, s.hf, s.idx, name, bit), msg, sig, pk, interpreted)
						c.Nontrivial(1)
						if i == 1000 {
							c.Sample(map[string]any{"family": name, "base": fmt.Sprint(s), "deviation": bit})
						}
					}
				}})
		}
	}
	flipFamily("sig-bitflip", "every single-bit flip of a valid signature", func(b *base) int { return len(b.sig) * 8 },
		func(b *base, bit int) ([]byte, []byte, [67]byte, bool) {
			s := append([]byte(nil), b.sig...)
			s[bit/8] ^= 1 << uint(bit%8)
			return b.msg, s, b.pk, true
		})
	flipFamily("msg-bitflip", "every single-bit flip of the message, plus truncation/extension by one byte", func(b *base) int { return len(b.msg)*8 + 3 },
		func(b *base, bit int) ([]byte, []byte, [67]byte, bool) {
			m := append([]byte(nil), b.msg...)
			switch bit - len(b.msg)*8 {
			case 0:
				m = m[:len(m)-1]
			case 1:
				m = append(m, 0)
			case 2:
				m = nil
			default:
				m[bit/8] ^= 1 << uint(bit%8)
			}
			return m, b.sig, b.pk, true
		})
	flipFamily("pk-bitflip", "every single-bit flip of the 67-byte public key", func(b *base) int { return 67 * 8 },
		func(b *base, bit int) ([]byte, []byte, [67]byte, bool) {
			pk := b.pk
			pk[bit/8] ^= 1 << uint(bit%8)
			// interpreted bits: byte0 (hash, sigtype), low nibble of byte1 (height), root, pub seed
			interp := bit < 8 || (bit >= 8 && bit < 12) || bit >= 24
			return b.msg, b.sig, pk, interp
		})
	flipFamily("index-field", "index field replaced by every other index < 2^h+2 and by 2^31, 2^32-1, 2^h<<8 ...", func(b *base) int { return 1<<uint(b.h) + 2 + 6 },
		func(b *base, k int) ([]byte, []byte, [67]byte, bool) {
			n := 1 << uint(b.h)
			var v uint32
			switch {
			case k < n+2:
				v = uint32(k)
			default:
				v = []uint32{1 << 31, 1<<32 - 1, uint32(n) << 8, b.idx | 1<<16, b.idx | 1<<24, b.idx + uint32(n)}[k-n-2]
			}
			s := append([]byte(nil), b.sig...)
			binary.BigEndian.PutUint32(s, v)
			return b.msg, s, b.pk, v != b.idx
		})
	flipFamily("chain-swap", "every pair of WOTS chain blocks swapped", func(b *base) int { return 67 * 66 / 2 },
		func(b *base, k int) ([]byte, []byte, [67]byte, bool) {
			x, y := 0, 1
			for t := 0; t < k; t++ {
				y++
				if y == 67 {
					x++
					y = x + 1
				}
			}
			s := append([]byte(nil), b.sig...)
			copy(s[36+32*x:], b.sig[36+32*y:36+32*y+32])
			copy(s[36+32*y:], b.sig[36+32*x:36+32*x+32])
			return b.msg, s, b.pk, true
		})
	flipFamily("chain-advance", "every WOTS chain value advanced by 1..3 steps with the reference F (checksum must catch it), every chain zeroed", func(b *base) int { return 67 * 4 },
		func(b *base, k int) ([]byte, []byte, [67]byte, bool) {
			j, steps := k/4, k%4
			s := append([]byte(nil), b.sig...)
			blk := s[36+32*j : 36+32*j+32]
			if steps == 0 {
				for t := range blk {
					blk[t] = 0
				}
				return b.msg, s, b.pk, true
			}
			// the digit of chain j is unknown to the attacker in general; the harness knows it via the reference
			R := b.sig[4:36]
			_ = R
			d := digitsOf(b)
			v := append([]byte(nil), blk...)
			for t := 0; t < steps && d[j]+t < 15; t++ {
				v = refxmss.ChainStep(refxmss.Hash(b.hf), v, d[j]+t, b.pk[35:], b.idx, j)
			}
			copy(blk, v)
			return b.msg, s, b.pk, d[j] < 15
		})
	flipFamily("auth-subst", "every auth node replaced by each other auth node, by the leaf-level sibling's complement, zeroed, or path rotated", func(b *base) int { return b.h*b.h + b.h + 2 },
		func(b *base, k int) ([]byte, []byte, [67]byte, bool) {
			s := append([]byte(nil), b.sig...)
			off := len(s) - 32*b.h
			switch {
			case k < b.h*b.h:
				x, y := k/b.h, k%b.h
				copy(s[off+32*x:], b.sig[off+32*y:off+32*y+32])
				return b.msg, s, b.pk, x != y
			case k < b.h*b.h+b.h:
				x := k - b.h*b.h
				for t := 0; t < 32; t++ {
					s[off+32*x+t] = 0
				}
			case k == b.h*b.h+b.h:
				copy(s[off:], b.sig[off+32:])
				copy(s[len(s)-32:], b.sig[off:off+32])
			default:
				for t := 4; t < 36; t++ {
					s[t] = 0 // R zeroed
				}
			}
			return b.msg, s, b.pk, true
		})
	// signature length deviations: every length 0..max for the base triple (valid bytes, extended with zeros / with a copy of the auth path)
	flipFamily("sig-length", "valid signature truncated or extended to EVERY length 0..2180+31*32+40 (zero padding and repeated-auth padding): accepted only at the canonical length", func(b *base) int { return 2 * (2180 + 31*32 + 41) },
		func(b *base, k int) ([]byte, []byte, [67]byte, bool) {
			n := 2180 + 31*32 + 41
			l, mode := k%n, k/n
			s := make([]byte, l)
			copy(s, b.sig)
			if mode == 1 {
				for t := len(b.sig); t < l; t++ {
					s[t] = b.sig[len(b.sig)-32*b.h+(t-len(b.sig))%(32*b.h)]
				}
			}
			return b.msg, s, b.pk, l != len(b.sig)
		})
	// cross matrix
	for _, tier := range []string{"q", "t"} {
		t := map[string]string{"q": "quick", "t": "thorough"}[tier]
		ss := sel(t)
		if t == "thorough" {
			for i := uint32(0); i < 16; i++ {
				ss = append(ss, bsel{4, 1, i})
			}
		}
		n := len(ss)
		ssc := ss
		ck.Domains = append(ck.Domains, &drv.Domain{Name: "cross-matrix-" + tier, Tier: tier, Size: int64(n * n * n), Desc: "every (msg_a, sig_b, pk_c) over the base triples (other key, other index, other height, other hash): accepted iff a=b=c (or reference agrees)",
			Run: func(c *drv.Ctx, lo, hi int64) {
				for i := lo; i < hi; i++ {
					c.At(i)
					a, b, cc := ssc[int(i)/(n*n)], ssc[int(i)/n%n], ssc[int(i)%n]
					ba, bb, bc := getBase(a.h, a.hf, a.idx, c.Seed), getBase(b.h, b.hf, b.idx, c.Seed), getBase(cc.h, cc.hf, cc.idx, c.Seed)
					same := a == b && b == cc
					// valid exactly when message and signature come from the same base and the public key is that KEY's
					// (two bases of the same (height, hash) share the key and differ only in the index)
					valid := a == b && b.h == cc.h && b.hf == cc.hf
					compare(c, i, "cross-matrix", fmt.Sprintf("msg of %v, sig of %v, pk of %v", a, b, cc), ba.msg, bb.sig, bc.pk, !valid)
					if same {
						c.Nontrivial(1)
						if libVerify(ba.msg, bb.sig, bc.pk, 0) != "true" {
							c.Fail(i, "cross-matrix:valid-triple-rejected", map[string]any{"base": fmt.Sprint(a)})
						}
						c.Sample(map[string]any{"base": fmt.Sprint(a), "accepted": true})
					}
				}
			}})
	}
	// fabricated triples at every height: real hashing at heights / indices no generated key can reach
	idxOf := func(h, k int) uint32 {
		n := uint64(1) << uint(h)
		c := []uint64{0, 1, 2, 255, 256, 257, 65535, 65536, 65537, 1<<24 - 1, 1 << 24, 1<<24 + 12345, n/2 - 1, n / 2, n - 2, n - 1, 0x00FF00FF, 0x01020304, 0xFF00, 0x10001}
		return uint32(c[k] % n)
	}
	ck.Domains = append(ck.Domains, &drv.Domain{Name: "fabricated-all-heights", Size: 14 * 3 * 20 * 2, Chunk: 4,
		Desc: "specification-valid triples FABRICATED by the reference (one real WOTS leaf + arbitrary authentication path, root by climbing) for every height 4..30 x 3 hash functions x 20 leaf indices (0, 1, 255..257, 65535..65537, 2^24-1.., 2^h/2, 2^h-1, byte patterns): the library must accept them, and must reject them with one bit of the index / auth path / message changed",
		Run: func(c *drv.Ctx, lo, hi int64) {
			for i := lo; i < hi; i++ {
				c.At(i)
				k := int(i)
				dev := k % 2
				k /= 2
				ik := k % 20
				k /= 20
				hf := k % 3
				h := 4 + 2*(k/3)
				idx := idxOf(h, ik)
				msg := []byte(fmt.Sprintf("fabricated h=%d idx=%d", h, idx))
				mat := seeds.Bytes(96+32*30, fmt.Sprint("fab", h, hf, ik), c.Seed)
				sig, pkb := refxmss.Fabricate(refxmss.Hash(hf), h, idx, msg, mat[0:32], mat[32:64], mat[64:96], func(t int) []byte { return mat[96+32*t : 128+32*t] })
				var pk [67]byte
				copy(pk[:], pkb)
				what := fmt.Sprintf("fabricated h=%d hash=%d idx=%d", h, hf, idx)
				if dev == 0 {
					if !refxmss.Verify(msg, sig, pkb, 16) {
						c.Fail(i, "fabricated:reference-rejects-its-own-construction(infrastructure)", map[string]any{"case": what})
						continue
					}
					compare(c, i, "fabricated", what, msg, sig, pk, false)
					c.Nontrivial(1)
					if ik == 7 && hf == 1 {
						c.Sample(map[string]any{"case": what, "signature_len": len(sig)})
					}
					continue
				}
				// one deviation, rotating: index bit, auth bit, message bit, height nibble
				s2 := append([]byte(nil), sig...)
				m2 := msg
				switch (ik + hf + h/2) % 4 {
				case 0:
					s2[ik%4] ^= 1 << uint(ik%8)
					what += " index bit flipped"
				case 1:
					s2[len(s2)-1-ik] ^= 0x10
					what += " auth bit flipped"
				case 2:
					m2 = append([]byte(nil), msg...)
					m2[ik%len(m2)] ^= 2
					what += " message bit flipped"
				case 3:
					pk[1] ^= 1
					what += " height nibble changed"
				}
				compare(c, i, "fabricated-deviation", what, m2, s2, pk, true)
			}
		}})
	// index fields beyond the tree
	oorH := []int{4, 6, 10, 16, 30}
	ck.Domains = append(ck.Domains, &drv.Domain{Name: "fabricated-index-beyond-tree", Size: int64(len(oorH)) * 3 * 5 * 2, Chunk: 5,
		Desc: "triples fabricated by the reference whose index field names a leaf the declared height does not have (2^h, 2^h+5, 3*2^h+1, 2^31+2^h, 2^32-1; the verification walk uses node index = idx >> level at every level, root level included) for heights 4,6,10,16,30 x 3 hash functions: library verdict == reference verdict, also with the index reduced mod 2^h (rejected by both)",
		Run: func(c *drv.Ctx, lo, hi int64) {
			for i := lo; i < hi; i++ {
				c.At(i)
				k := int(i)
				dev := k % 2
				k /= 2
				ik := k % 5
				k /= 5
				hf := k % 3
				h := oorH[k/3]
				top := uint32(1) << uint(h)
				idx := []uint32{top, top + 5, 3*top + 1, 1<<31 + top, 0xFFFFFFFF}[ik]
				msg := []byte(fmt.Sprintf("fabricated beyond h=%d idx=%d", h, idx))
				mat := seeds.Bytes(96+32*30, fmt.Sprint("fab-oor", h, hf, ik), c.Seed)
				sig, pkb := refxmss.Fabricate(refxmss.Hash(hf), h, idx, msg, mat[0:32], mat[32:64], mat[64:96], func(t int) []byte { return mat[96+32*t : 128+32*t] })
				var pk [67]byte
				copy(pk[:], pkb)
				what := fmt.Sprintf("fabricated h=%d hash=%d idx=%d (>= 2^h)", h, hf, idx)
				if dev == 0 {
					if !refxmss.Verify(msg, sig, pkb, 16) {
						c.Fail(i, "fabricated:reference-rejects-its-own-construction(infrastructure)", map[string]any{"case": what})
						continue
					}
					compare(c, i, "index-beyond-tree", what, msg, sig, pk, false)
					c.Nontrivial(1)
					continue
				}
				s2 := append([]byte(nil), sig...)
				r := idx & (top - 1)
				s2[0], s2[1], s2[2], s2[3] = byte(r>>24), byte(r>>16), byte(r>>8), byte(r)
				compare(c, i, "index-beyond-tree-deviation", what+" index reduced mod 2^h", msg, s2, pk, true)
			}
		}})
	// the custom-w entry point with other Winternitz parameters
	ws := []int{4, 16, 256}
	ck.Domains = append(ck.Domains, &drv.Domain{Name: "custom-w", Size: 3 * 2 * 3 * 3 * 7, Chunk: 7,
		Desc: "VerifyWithCustomWOTSParamW(w) for w in {4,16,256} against the reference verifier with the same w: reference-fabricated valid triples (heights 4,10 x 3 hash functions x indices 0,5,2^h-1) and 6 deviations each (a w'=other signature padded/cut to this w's length; bit flips in the first message chain, the last message chain, each checksum chain region, the message; the same triple under another w)",
		Run: func(c *drv.Ctx, lo, hi int64) {
			for i := lo; i < hi; i++ {
				c.At(i)
				k := int(i)
				dev := k % 7
				k /= 7
				ik := k % 3
				k /= 3
				hf := k % 3
				k /= 3
				h := []int{4, 10}[k%2]
				w := ws[k/2]
				idx := []uint32{0, 5, uint32(1)<<uint(h) - 1}[ik]
				msg := []byte(fmt.Sprintf("custom w=%d h=%d idx=%d", w, h, idx))
				mat := seeds.Bytes(96+32*30, fmt.Sprint("fab-w", w, h, hf, ik), c.Seed)
				auth := func(t int) []byte { return mat[96+32*t : 128+32*t] }
				sig, pkb := refxmss.FabricateW(refxmss.Hash(hf), h, idx, msg, mat[0:32], mat[32:64], mat[64:96], auth, w)
				var pk [67]byte
				copy(pk[:], pkb)
				what := fmt.Sprintf("w=%d h=%d hash=%d idx=%d", w, h, hf, idx)
				p := refxmss.NewWOTS(w)
				s2 := append([]byte(nil), sig...)
				m2 := msg
				lw := uint32(w)
				switch dev {
				case 0:
					if !refxmss.Verify(msg, sig, pkb, w) {
						c.Fail(i, "custom-w:reference-rejects-its-own-construction(infrastructure)", map[string]any{"case": what})
						continue
					}
					compareW(c, i, "custom-w", what, msg, sig, pk, false, lw)
					c.Nontrivial(1)
					continue
				case 1:
					// a signature for another w (same key material) padded / cut to this w's length
					ow := ws[(k/2+1)%3]
					os, _ := refxmss.FabricateW(refxmss.Hash(hf), h, idx, msg, mat[0:32], mat[32:64], mat[64:96], auth, ow)
					s2 = make([]byte, len(sig))
					copy(s2, os)
					what += fmt.Sprintf(" carrying the bytes of a w=%d signature", ow)
				case 2:
					s2[36] ^= 1
					what += " first message chain bit flipped"
				case 3:
					s2[36+32*(p.Len1-1)+31] ^= 0x80
					what += " last message chain bit flipped"
				case 4:
					s2[36+32*p.Len1] ^= 1
					what += " first checksum chain bit flipped"
				case 5:
					s2[36+32*(p.Len-1)+7] ^= 4
					what += " last checksum chain bit flipped"
				case 6:
					m2 = append([]byte(nil), msg...)
					m2[0] ^= 1
					what += " message bit flipped"
				}
				compareW(c, i, "custom-w-deviation", what, m2, s2, pk, true, lw)
			}
		}})
	// messages whose length does not fit 32 bits
	ck.Domains = append(ck.Domains, &drv.Domain{Name: "message-length-mod-2^32", Size: 2, Chunk: 2,
		Desc: "a valid signature over k zero bytes (k = 5, 0) presented with a message of 2^32 + k zero bytes (a read-only no-reserve mapping): a different message, must not be accepted (a hash input assembled with 32-bit lengths sees only len mod 2^32 bytes)",
		Run: func(c *drv.Ctx, lo, hi int64) {
			for i := lo; i < hi; i++ {
				c.At(i)
				k := []int{5, 0}[i]
				if c.Tier != "thorough" && i > 0 {
					continue // quick: k = 5 only (every case hashes 4 GiB once the lengths are handled correctly)
				}
				sd := seeds.Seed48(3, c.Seed)
				rk := refxmss.NewKey(sd[:], 4, refxmss.SHA2_256) // SHA-256: the fastest of the three on 4 GiB
				short := make([]byte, k)
				sig := rk.Sign(uint32(3+i), short)
				var pk [67]byte
				copy(pk[:], rk.PK())
				if !refxmss.Verify(short, sig, pk[:], 16) || libVerify(short, sig, pk, 0) != "true" {
					c.Fail(i, "giant:base-signature-not-valid(infrastructure)", nil)
					continue
				}
				giant, release := drv.GiantZeros(1<<32 + uint64(k))
				if giant == nil {
					c.Cap("a 4 GiB no-reserve mapping was refused: message-length-mod-2^32 skipped")
					c.Outcome("skipped")
					continue
				}
				c.Tick()
				lib := libVerify(giant, sig, pk, 0)
				release()
				c.Eval(1)
				c.Nontrivial(1)
				c.Outcome("lib=" + short12(lib))
				if lib == "true" {
					c.Fail(i, "message-of-length-2^32+k-accepted-for-the-signature-of-its-k-byte-prefix", map[string]any{"k": k, "message": fmt.Sprintf("%d zero bytes", uint64(1<<32)+uint64(k)), "signed_message": fmt.Sprintf("%d zero bytes", k),
						"signature": drv.Hex(sig), "public_key": drv.FullHex(pk[:]), "expected": "not accepted (the messages differ)", "observed": lib})
				}
			}
		}})
	ck.Domains = append(ck.Domains, &drv.Domain{Name: "signature-length-mod-2^32", Size: 3, Chunk: 1,
		Desc: "a valid signature followed by 2^32 zero bytes (private no-reserve mapping; only the first page is committed), for 3 hash functions: a changed signature, must not be accepted — the size checks must look at the whole length, not at its low 32 bits (a refusal is fine)",
		Run: func(c *drv.Ctx, lo, hi int64) {
			for i := lo; i < hi; i++ {
				c.At(i)
				b := getBase(4, int(i), uint32([]int{0, 15, 6}[i]), c.Seed)
				giant, release := drv.GiantWithPrefix(1<<32+uint64(len(b.sig)), b.sig)
				if giant == nil {
					c.Cap("a 4 GiB no-reserve mapping was refused: signature-length-mod-2^32 skipped")
					c.Outcome("skipped")
					continue
				}
				lib := libVerify(b.msg, giant, b.pk, 0)
				lib16 := libVerify(b.msg, giant, b.pk, 16)
				release()
				c.Eval(2)
				c.Nontrivial(2)
				c.Outcome("lib=" + short12(lib))
				if lib == "true" || lib16 == "true" {
					c.Fail(i, "signature-with-2^32-trailing-bytes-accepted", map[string]any{"hash": i, "signature_length": uint64(1<<32) + uint64(len(b.sig)), "valid_signature_length": len(b.sig),
						"message": drv.FullHex(b.msg), "public_key": drv.FullHex(b.pk[:]), "expected": "not accepted (false or an explicit refusal)", "observed": lib, "observed_customw16": lib16})
				}
			}
		}})
	// descriptor sweep
	ck.Domains = append(ck.Domains, &drv.Domain{Name: "desc-sweep", Size: 65536 * 2 * 3, Chunk: 256, Desc: "pk descriptor (byte0,byte1) over all 65536 values x {honest root, all-zero root + zero seed} x base hash function; signature length matched to the declared height",
		Run: func(c *drv.Ctx, lo, hi int64) {
			for i := lo; i < hi; i++ {
				c.At(i)
				b0, b1 := byte(i>>8), byte(i)
				variant := int(i>>16) % 2
				hf := int(i>>16) / 2
				b := getBase(4, hf, uint32([]int{0, 15, 6}[hf]), c.Seed)
				pk := b.pk
				pk[0], pk[1] = b0, b1
				if variant == 1 {
					for t := 3; t < 67; t++ {
						pk[t] = 0
					}
				}
				h := int(b1&15) * 2
				sig := make([]byte, refxmss.SigSize(16, h))
				copy(sig, b.sig)
				if variant == 1 && hf == 2 {
					for t := range sig {
						sig[t] = byte(t * 31)
					}
				}
				compare(c, i, "desc-sweep", fmt.Sprintf("descriptor %02x%02x variant=%d", b0, b1, variant), b.msg, sig, pk, !(b0 == b.pk[0] && b1&15 == b.pk[1]&15 && variant == 0))
				if b0>>4 == 0 && h >= 4 {
					c.Nontrivial(1)
				}
				if i == 0x0102 {
					c.Sample(map[string]any{"descriptor": fmt.Sprintf("%02x%02x", b0, b1), "variant": variant})
				}
			}
		}})
	drv.Main(ck)
}

var digCache = map[*base][]int{}

// digitsOf recomputes the base-16 digits of the message digest for base b by probing the reference verifier's
// own primitives: D = H_msg(R || root || idx, msg).
func digitsOf(b *base) []int {
	if d, ok := digCache[b]; ok {
		return d
	}
	d := refxmss.MsgDigits(refxmss.Hash(b.hf), b.sig[4:36], b.pk[3:35], b.idx, b.msg)
	digCache[b] = d
	return d
}
