package main

import (
	"bytes"
	"crypto/sha256"
	"encoding/hex"
	"encoding/json"
	"fmt"
	"os"
	"os/exec"
	"strings"

	"github.com/theQRL/go-qrllib/dilithium"
	"verifmc/dilscope"
	"verifmc/drv"
	"verifmc/refdil"
)

// The same harness compiled for a 32-bit target (GOARCH=386, run natively by the amd64 kernel): `uint`, `int` and
// `uintptr` are 32 bits wide there, as they are in the GopherJS / wasm32 builds the repository's JS wrappers are for.

type archCase struct {
	Seed string `json:"seed"` // wallet seed (hex): the child generates the key itself and signs
	PK   string `json:"pk"`
	Msg  string `json:"msg"`
	Sig  string `json:"sig"`
}

// archChild (any architecture): for every case print "<verdict> <sha256(pk)> <sha256(signature)>".
func archChild(path string) {
	b, err := os.ReadFile(path)
	var cs []archCase
	if err != nil || json.Unmarshal(b, &cs) != nil {
		fmt.Fprintln(os.Stderr, "arch child: cannot read cases")
		os.Exit(2)
	}
	for _, cse := range cs {
		pkb, _ := hex.DecodeString(cse.PK)
		msg, _ := hex.DecodeString(cse.Msg)
		sgb, _ := hex.DecodeString(cse.Sig)
		var pk [dilithium.CryptoPublicKeyBytes]byte
		var sig [dilithium.CryptoBytes]byte
		copy(pk[:], pkb)
		copy(sig[:], sgb)
		var v bool
		out := drv.Call(func() { v = dilithium.Verify(msg, sig, &pk) })
		line := fmt.Sprint(v)
		if out != "ok" {
			line = out
		}
		if cse.Seed != "" {
			sb, _ := hex.DecodeString(cse.Seed)
			var seed [48]byte
			copy(seed[:], sb)
			out := drv.Call(func() {
				d, err := dilithium.NewDilithiumFromSeed(seed)
				if err != nil {
					panic(err.Error())
				}
				s, err := d.Sign(msg)
				if err != nil {
					panic(err.Error())
				}
				p := d.GetPK()
				h1, h2 := sha256.Sum256(p[:]), sha256.Sum256(s[:])
				line += " " + hex.EncodeToString(h1[:8]) + " " + hex.EncodeToString(h2[:8])
			})
			if out != "ok" {
				line += " " + strings.ReplaceAll(out, " ", "_")
			}
		}
		fmt.Println(strings.ReplaceAll(line, "\n", " "))
	}
}

func archDomain() *drv.Domain {
	return &drv.Domain{Name: "arch-386", Size: 1, Chunk: 1,
		Desc: "configuration: the library compiled for a 32-bit target (GOARCH=386; int/uint are 32 bits, as under GopherJS / wasm32) in its own process: for 6 (seed, message) pairs the verdict on the SPECIFICATION's signature and on 5 deviations of it (z bit, challenge bit, hint section zeroed, message bit, pk bit), and the key and signature the 32-bit build itself produces, equal the specification's (and the 64-bit build's)",
		Run: func(c *drv.Ctx, lo, hi int64) {
			c.At(0)
			bin := os.Getenv("VERIF_BIN386")
			if bin == "" {
				c.Cap("no 32-bit build of the harness available: arch-386 skipped")
				c.Outcome("skipped")
				return
			}
			var cs []archCase
			var want []string
			for j := 0; j < 6; j++ {
				seed := dilscope.Seed(j%3, 0)
				k := getKeys(seed)
				msg := []byte(fmt.Sprintf("C05 arch message %d", j))
				r := k.ref.Sign(msg, refdil.Skip{})
				h1, h2 := sha256.Sum256(k.ref.PK), sha256.Sum256(r.Sig)
				for dev := 0; dev < 6; dev++ {
					sig := append([]byte(nil), r.Sig...)
					m := append([]byte(nil), msg...)
					pk := append([]byte(nil), k.ref.PK...)
					switch dev {
					case 1:
						sig[32+700] ^= 0x10
					case 2:
						sig[5] ^= 1
					case 3:
						for x := len(sig) - 83; x < len(sig); x++ {
							sig[x] = 0
						}
					case 4:
						m[0] ^= 1
					case 5:
						pk[100] ^= 2
					}
					ac := archCase{PK: hex.EncodeToString(pk), Msg: hex.EncodeToString(m), Sig: hex.EncodeToString(sig)}
					w := fmt.Sprint(refdil.Verify(pk, m, sig))
					if dev == 0 {
						ac.Seed = hex.EncodeToString(seed[:])
						w += " " + hex.EncodeToString(h1[:8]) + " " + hex.EncodeToString(h2[:8])
					}
					cs = append(cs, ac)
					want = append(want, w)
				}
			}
			f, err := os.CreateTemp("", "verif-c05-arch-*.json")
			if err != nil {
				c.Cap("cannot create the case file: " + err.Error())
				return
			}
			defer os.Remove(f.Name())
			b, _ := json.Marshal(cs)
			f.Write(b)
			f.Close()
			cmd := exec.Command(bin)
			cmd.Env = append(os.Environ(), "VERIF_C05_ARCH="+f.Name())
			var eb bytes.Buffer
			cmd.Stderr = &eb
			out, err := cmd.Output()
			lines := strings.Split(strings.TrimSpace(string(out)), "\n")
			if err != nil || len(lines) != len(cs) {
				if strings.Contains(eb.String(), "go-qrllib") {
					c.Fail(0, "arch-386:process-crashed", map[string]any{"stderr": eb.String()})
				} else {
					c.Cap("the 32-bit process could not be run (infrastructure): " + fmt.Sprint(err))
				}
				return
			}
			c.Eval(int64(len(cs)))
			c.Nontrivial(int64(len(cs)))
			for i := range cs {
				if lines[i] != want[i] {
					c.Fail(0, "arch-386:verdict-or-output-differs-from-specification", map[string]any{"case": i, "deviation": i % 6, "expected(verdict pk-digest sig-digest)": want[i], "observed_on_386": lines[i],
						"message": cs[i].Msg, "seed": cs[i%6*0+i/6*6].Seed})
					break
				}
			}
			c.Outcome("compared")
		}}
}
