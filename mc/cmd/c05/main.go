// C05 — Dilithium Verify is strict: only canonical, in-range signatures pass.
// Engine E3: (1) rogue-signer inputs from the specification model holding the secret key with exactly
// one signing-side check skipped; (2) all single-bit flips of sig and pk; (3) decoder-level differential
// over all <=2-byte deviations of the hint section. Oracle: library <=> specification verifier/decoder.
package main

import (
	"bufio"
	"bytes"
	"encoding/hex"
	"encoding/json"
	"fmt"
	"os"

	"github.com/theQRL/go-qrllib/dilithium"
	"verifmc/dilscope"
	"verifmc/drv"
	"verifmc/refdil"
	"verifmc/seeds"
)

type keys struct {
	ref *refdil.Key
	lib *dilithium.Dilithium
	pk  [dilithium.CryptoPublicKeyBytes]byte
}

var cache = map[[48]byte]*keys{}

func getKeys(seed [48]byte) *keys {
	if k, ok := cache[seed]; ok {
		return k
	}
	lib, err := dilithium.NewDilithiumFromSeed(seed)
	if err != nil {
		panic(err)
	}
	k := &keys{ref: refdil.KeyGenFromWalletSeed(seed[:]), lib: lib, pk: lib.GetPK()}
	cache[seed] = k
	return k
}

// libAccepts runs Verify and Open; they must agree with each other. Returns (accepted, outcome string).
func libAccepts(c *drv.Ctx, i int64, msg, sig []byte, pk *[dilithium.CryptoPublicKeyBytes]byte, what string) (bool, bool) {
	var s [dilithium.CryptoBytes]byte
	copy(s[:], sig)
	var v bool
	var op []byte
	sm := append(append([]byte(nil), sig...), msg...)
	out := drv.Call(func() {
		v = dilithium.Verify(msg, s, pk)
		op = dilithium.Open(sm, pk)
	})
	if out != "ok" {
		c.Fail(i, "verify-or-open-panicked", map[string]any{"case": what, "observed": out})
		return false, false
	}
	if v != (op != nil) || (op != nil && !bytes.Equal(op, msg)) {
		c.Fail(i, "verify-and-open-disagree", map[string]any{"case": what, "verify": v, "open_nil": op == nil})
		return v, false
	}
	return v, true
}

func compare(c *drv.Ctx, i int64, fam, what string, k *keys, pkb []byte, msg, sig []byte, mustReject bool) {
	c.Eval(1)
	var pk [dilithium.CryptoPublicKeyBytes]byte
	copy(pk[:], pkb)
	got, ok := libAccepts(c, i, msg, sig, &pk, what)
	if !ok {
		return
	}
	exp := refdil.Verify(pkb, msg, sig)
	c.Outcome(fmt.Sprintf("lib=%v ref=%v", got, exp))
	if got != exp {
		c.Fail(i, fmt.Sprintf("%s:lib-%v-spec-%v", fam, got, exp), map[string]any{"case": what, "message": drv.Hex(msg), "signature": drv.Hex(sig), "hint_section": drv.FullHex(sig[len(sig)-83:]),
			"expected": fmt.Sprintf("accept=%v (specification verifier)", exp), "observed": got})
	} else if mustReject && got {
		c.Fail(i, fam+":deviation-accepted-by-both", map[string]any{"case": what})
	}
}

type corpusEntry struct{ Seed, Msg, Kind string }

func loadCorpus(kind string) []corpusEntry {
	f, err := os.Open(drv.CorpusPath("c07.jsonl"))
	if err != nil {
		return nil
	}
	defer f.Close()
	var out []corpusEntry
	sc := bufio.NewScanner(f)
	sc.Buffer(make([]byte, 1<<20), 1<<20)
	for sc.Scan() {
		var e corpusEntry
		if json.Unmarshal(sc.Bytes(), &e) == nil && e.Kind == kind {
			out = append(out, e)
		}
	}
	return out
}

// validSig returns a valid (msg, sig) for key k with a hint weight suited to the mutation families.
type vs struct {
	msg, sig []byte
	r        *refdil.SignResult
}

var vsCache = map[string]vs{}

func validSig(k *keys, j int) ([]byte, []byte, *refdil.SignResult) {
	key := fmt.Sprintf("%p-%d", k, j)
	if v, ok := vsCache[key]; ok {
		return v.msg, v.sig, v.r
	}
	msg := []byte(fmt.Sprintf("C05 base message %d", j))
	r := k.ref.Sign(msg, refdil.Skip{})
	vsCache[key] = vs{msg, r.Sig, r}
	return msg, r.Sig, r
}

func main() {
	if f := os.Getenv("VERIF_C05_ARCH"); f != "" {
		archChild(f)
		return
	}
	ck := &drv.Check{Property: "C05", Level: "model_checking",
		Rule: "deviation-bounded exhaustive enumeration: rogue-signer signatures (z-norm check skipped; exact-boundary corpus inputs), every adjacent transposition / duplication / padding value / challenge byte change of valid signatures, every single-bit flip of sig and pk, " +
			"and at decoder level every 1- and 2-byte deviation of the 83-byte hint section (2-byte: 16x16 alphabet quick, 256x256 thorough) and every 20-bit z pattern at lanes 0/1; oracle: library <=> specification verifier / reference decoder, accepted strings re-encode to themselves. " +
			"non-trivial = a 'sharp' rogue input (a verifier lacking exactly that check accepts it) or an accepted deviation",
		Assumptions: []string{"an end-to-end accepting witness for a verifier lacking only the monotone-count or over-count test needs a rare hint shape; those two tests are decided at decoder level", "sha3 trusted"}}
	// (1z) rogue challenge: everything derived consistently from a challenge seed that is NOT the hash of (mu, w1)
	ck.Domains = append(ck.Domains, &drv.Domain{Name: "rogue-challenge", Size: 32 * 8 * 2, Chunk: 16,
		Desc: "signatures produced by the specification signer from a challenge seed with ONE bit flipped before the challenge polynomial, z and the hints are derived from it (every bit of every one of the 32 bytes, 2 keys): internally consistent, only the final comparison of the recomputed challenge seed with the published one can tell — must be rejected; sharp = the recomputed seed differs from the published one in exactly that bit",
		Run: func(c *drv.Ctx, lo, hi int64) {
			for i := lo; i < hi; i++ {
				c.At(i)
				bit, byteIdx, kn := int(i%8), int(i/8%32), int(i/256)
				k := getKeys(dilscope.Seed(kn, c.Seed))
				msg := []byte(fmt.Sprintf("rogue-challenge-%d", kn))
				x := make([]byte, 32)
				x[byteIdx] = 1 << uint(bit)
				r := k.ref.Sign(msg, refdil.Skip{ChallengeXor: x})
				if r.Sig == nil {
					c.Outcome("no-signature")
					continue
				}
				c.Nontrivial(1)
				compare(c, i, "rogue-challenge", fmt.Sprintf("challenge seed byte %d bit %d flipped before derivation", byteIdx, bit), k, k.ref.PK, msg, r.Sig, true)
			}
		}})
	// (1a) rogue z
	zc := loadCorpus("z=0")
	ck.Domains = append(ck.Domains, &drv.Domain{Name: "rogue-z-norm", Size: 400 + int64(len(zc)), Chunk: 8,
		Desc: "signatures produced by the specification signer with ONLY the z-norm check skipped (kept when that check would have rejected, incl. corpus inputs with max|z| exactly gamma1-beta): must be rejected; sharp = accepted by a verifier lacking only the z-norm test",
		Run: func(c *drv.Ctx, lo, hi int64) {
			for i := lo; i < hi; i++ {
				c.At(i)
				var k *keys
				var msg []byte
				skip := refdil.Skip{Z: true}
				if i < 400 {
					k = getKeys(dilscope.Seed(int(i%4), c.Seed))
					msg = []byte(fmt.Sprintf("rogue-z-%d", i))
				} else {
					e := zc[i-400]
					sb, _ := hex.DecodeString(e.Seed)
					var seed [48]byte
					copy(seed[:], sb)
					k = getKeys(seed)
					msg, _ = hex.DecodeString(e.Msg)
					// find the iteration with slack exactly 0
					p := k.ref.Sign(msg, refdil.Skip{}).Path
					for n, it := range p {
						if it.SlackZ == 0 {
							skip.OnlyIter = n + 1
							break
						}
					}
				}
				r := k.ref.Sign(msg, skip)
				if r.Sig == nil || !r.Forced {
					c.Outcome("not-forced")
					continue
				}
				sharp := refdil.VerifyLenient(k.ref.PK, msg, r.Sig, refdil.Lenient{SkipZNorm: true})
				if sharp {
					c.Nontrivial(1)
					c.Count("sharp", 1)
					if r.Path[len(r.Path)-1].SlackZ == 0 {
						c.Count("sharp_exact_boundary", 1)
					}
					c.Sample(map[string]any{"message": string(msg), "max_abs_z_minus_bound": r.Path[len(r.Path)-1].SlackZ})
				}
				compare(c, i, "rogue-z", fmt.Sprintf("z-norm skipped, slack=%d sharp=%v", r.Path[len(r.Path)-1].SlackZ, sharp), k, k.ref.PK, msg, r.Sig, true)
			}
		}})
	// (1b) hint-section mutations of valid signatures
	type mut struct {
		kind string
		a, b int
	}
	muts := func(sig []byte) []mut {
		hs := sig[len(sig)-83:]
		var ms []mut
		k := 0
		for row := 0; row < 8; row++ {
			end := int(hs[75+row])
			for j := k; j+1 < end; j++ {
				ms = append(ms, mut{"transpose", j, row})
			}
			if end > k {
				ms = append(ms, mut{"duplicate", end - 1, row})
			}
			k = end
		}
		w := k
		if w < 75 {
			for v := 1; v < 256; v++ {
				ms = append(ms, mut{"padding-first", w, v})
			}
			for p := w; p < 75; p++ {
				ms = append(ms, mut{"padding-at", p, 1})
			}
		}
		for p := 0; p < 32; p++ {
			ms = append(ms, mut{"challenge", p, 0x01}, mut{"challenge", p, 0x80})
		}
		return ms
	}
	apply := func(sig []byte, m mut) ([]byte, refdil.Lenient) {
		s := append([]byte(nil), sig...)
		hs := s[len(s)-83:]
		w := int(hs[82])
		switch m.kind {
		case "transpose":
			hs[m.a], hs[m.a+1] = hs[m.a+1], hs[m.a]
			return s, refdil.Lenient{AllowUnsorted: true}
		case "duplicate":
			if w >= 75 {
				return nil, refdil.Lenient{}
			}
			copy(hs[m.a+2:75], hs[m.a+1:74])
			hs[m.a+1] = hs[m.a]
			for r := m.b; r < 8; r++ {
				hs[75+r]++
			}
			return s, refdil.Lenient{AllowUnsorted: true}
		case "padding-first", "padding-at":
			hs[m.a] = byte(m.b)
			return s, refdil.Lenient{AllowPadding: true}
		case "challenge":
			s[m.a] ^= byte(m.b)
		}
		return s, refdil.Lenient{}
	}
	const nBases = 6
	ck.Domains = append(ck.Domains, &drv.Domain{Name: "rogue-hint-encoding", Size: nBases * 700, Chunk: 10,
		Desc: "valid signatures (6 bases) with the hint section made non-canonical: every adjacent transposition in every row, every row's last index duplicated, every non-zero value at the first padding slot, 1 at every padding slot, every challenge byte changed: must be rejected; sharp = accepted by a verifier with only that strictness test removed",
		Run: func(c *drv.Ctx, lo, hi int64) {
			for i := lo; i < hi; i++ {
				c.At(i)
				b := int(i / 700)
				k := getKeys(dilscope.Seed(b%3, c.Seed))
				msg, sig, _ := validSig(k, b)
				ms := muts(sig)
				mi := int(i % 700)
				if mi >= len(ms) {
					continue
				}
				m := ms[mi]
				s, len1 := apply(sig, m)
				if s == nil {
					continue
				}
				sharp := false
				if m.kind != "challenge" {
					sharp = refdil.VerifyLenient(k.ref.PK, msg, s, len1)
				}
				if sharp {
					c.Nontrivial(1)
					c.Count("sharp:"+m.kind, 1)
				}
				compare(c, i, "rogue-"+m.kind, fmt.Sprintf("base %d %s(%d,%d) sharp=%v", b, m.kind, m.a, m.b, sharp), k, k.ref.PK, msg, s, true)
				if mi == 3 {
					c.Sample(map[string]any{"base": b, "mutation": fmt.Sprint(m), "hint_section": drv.FullHex(s[len(s)-83:])})
				}
			}
		}})
	// (1c) degenerate public key t1 = 0: accepted triples with ARBITRARY hint vectors can be built without a secret key;
	// hints are aimed at coefficients whose low part is at a boundary (0, +-1, +-gamma2 ...), where UseHint's branches meet
	ck.Domains = append(ck.Domains, &drv.Domain{Name: "degenerate-pk-hints", Size: 600, Chunk: 4,
		Desc: "public key with t1 = 0 (4 rho values): triples built by the specification model from chosen z (small, or at the norm bound) and chosen hint vectors (random weight <= 75, and hints aimed at the coefficients of A z whose low bits are closest to 0 / +-gamma2): library <=> specification (the model accepts all of them by construction)",
		Run: func(c *drv.Ctx, lo, hi int64) {
			for i := lo; i < hi; i++ {
				c.At(i)
				rho := seeds.Bytes(32, fmt.Sprint("rho", i%4), c.Seed)
				msg := []byte(fmt.Sprintf("degenerate %d", i))
				rnd := seeds.Bytes(24000, fmt.Sprint("z", i), c.Seed)
				var z [refdil.L]refdil.Poly
				bound := int64(refdil.GAMMA1 - refdil.BETA - 1)
				for a := 0; a < refdil.L; a++ {
					for b := 0; b < 256; b++ {
						v := int64(rnd[(a*256+b)*3])<<16 | int64(rnd[(a*256+b)*3+1])<<8 | int64(rnd[(a*256+b)*3+2])
						v = v%(2*bound+1) - bound
						if i%3 == 1 {
							v = v % 1000 // small z
						}
						z[a][b] = refdil.Mod(v)
					}
				}
				if i%5 == 0 {
					z[int(i)%refdil.L][int(i)%256] = refdil.Mod(bound) // exactly the largest admissible value
				}
				if i%5 == 1 {
					z[int(i)%refdil.L][int(i)%256] = refdil.Mod(-bound)
				}
				var h [refdil.K]refdil.Poly
				az := refdil.AzForZeroT1(rho, &z)
				weight := 0
				if i%3 == 0 {
					// exact aim: move z[0][0] so that coefficient (r,p) of A z has low part EXACTLY `lowTarget`, then hint it
					A := refdil.ExpandACoeff(rho)
					r, p := int(i/3)%refdil.K, int(i*37)%256
					lowTarget := []int64{0, 1, -1, refdil.GAMMA2, -refdil.GAMMA2 + 1, refdil.GAMMA2 - 1}[int(i/3)%6]
					a := A[r][0][p]
					if a != 0 {
						inv := refdil.InvMod(a)
						for k := int64(0); k < 16; k++ {
							want := refdil.Mod(k*2*refdil.GAMMA2 + lowTarget)
							d := refdil.Centre((want - az[r][p]) % refdil.Q * inv)
							nz := refdil.Centre(z[0][0]) + d
							if nz <= bound && nz >= -bound {
								z[0][0] = refdil.Mod(nz)
								az = refdil.AzForZeroT1(rho, &z)
								if _, a0 := refdil.Decompose(az[r][p]); a0 == lowTarget || (lowTarget == refdil.GAMMA2 && a0 == refdil.GAMMA2) {
									h[r][p] = 1
									weight++
									c.Count(fmt.Sprintf("exact_low_part=%d_hinted", lowTarget), 1)
								}
								break
							}
						}
					}
				}
				if i%2 == 0 {
					// aimed hints: the coefficients whose low bits are closest to 0 (kind 0) or to +-gamma2 (kind 1)
					type cand struct {
						r, p int
						d    int64
					}
					var best []cand
					kind := (i / 2) % 2
					for r := 0; r < refdil.K; r++ {
						for p := 0; p < 256; p++ {
							_, a0 := refdil.Decompose(az[r][p])
							d := a0
							if d < 0 {
								d = -d
							}
							if kind == 1 {
								d = refdil.GAMMA2 - d
							}
							best = append(best, cand{r, p, d})
						}
					}
					for n := 0; n < 40; n++ { // selection of the 40 closest
						m := n
						for k := n + 1; k < len(best); k++ {
							if best[k].d < best[m].d {
								m = k
							}
						}
						best[n], best[m] = best[m], best[n]
						h[best[n].r][best[n].p] = 1
						weight++
						if best[n].d == 0 {
							c.Count("hints_on_exact_boundary", 1)
						}
					}
				} else {
					for n := 0; n < int(i%76); n++ {
						r, p := int(rnd[20000+n])%refdil.K, int(rnd[21000+n])
						if h[r][p] == 0 && weight < refdil.OMEGA {
							h[r][p] = 1
							weight++
						}
					}
				}
				pk, sig, _ := refdil.ForgeForZeroT1(rho, msg, &z, &h)
				if !refdil.Verify(pk, msg, sig) {
					c.Fail(i, "degenerate-pk:model-rejects-its-own-construction(infrastructure)", nil)
					continue
				}
				c.Nontrivial(1)
				compare(c, i, "degenerate-pk", fmt.Sprintf("t1=0, hint weight %d, variant %d", weight, i%6), nil, pk, msg, sig, false)
				// and with one hint moved / removed the triple must be judged the same by both
				if weight > 0 {
					s2 := append([]byte(nil), sig...)
					hs := s2[len(s2)-83:]
					hs[0] ^= 1
					compare(c, i, "degenerate-pk-perturbed", fmt.Sprintf("t1=0, first hint index ^1, weight %d", weight), nil, pk, msg, s2, false)
				}
				if i == 4 {
					c.Sample(map[string]any{"rho": drv.Hex(rho), "hint_weight": weight, "message": string(msg)})
				}
			}
		}})
	// (1d) histories: a verification must not depend on what was verified before (reused scratch, caches)
	ck.Domains = append(ck.Domains, &drv.Domain{Name: "verify-histories", Size: 3 * 700, Chunk: 50,
		Desc: "for every hint-section malformation of a valid signature (3 bases): verify the malformed one, then the VALID one (must be accepted), then the valid signature with all hints zeroed (library <=> specification), then the valid one under another key variable holding another key",
		Run: func(c *drv.Ctx, lo, hi int64) {
			for i := lo; i < hi; i++ {
				c.At(i)
				b := int(i / 700)
				k := getKeys(dilscope.Seed(b%3, c.Seed))
				msg, sig, _ := validSig(k, b)
				ms := muts(sig)
				mi := int(i % 700)
				if mi >= len(ms) {
					continue
				}
				s, _ := apply(sig, ms[mi])
				if s == nil {
					continue
				}
				pk := k.pk
				libAccepts(c, i, msg, s, &pk, "history step 1 (malformed)")
				if ok, _ := libAccepts(c, i, msg, sig, &pk, "history step 2 (valid)"); !ok {
					c.Fail(i, "history:valid-signature-rejected-after-malformed-one", map[string]any{"malformation": fmt.Sprint(ms[mi])})
				}
				z := append([]byte(nil), sig...)
				for t := len(z) - 83; t < len(z); t++ {
					z[t] = 0
				}
				compare(c, i, "history-hints-zeroed", fmt.Sprintf("after %v: valid signature with the hint section zeroed", ms[mi]), k, k.ref.PK, msg, z, false)
				// a verification under a related key (one bit of rho flipped) must not poison the next one
				rb := int(i*37) % 256
				pkr := k.pk
				pkr[rb/8] ^= 1 << uint(rb%8)
				libAccepts(c, i, msg, sig, &pkr, "history (pk with rho bit flipped)")
				if ok, _ := libAccepts(c, i, msg, sig, &k.pk, "history (valid after related key)"); !ok {
					c.Fail(i, "history:valid-signature-rejected-after-verification-under-related-key", map[string]any{"flipped_rho_bit": rb})
				}
				// same variable, other key
				k2 := getKeys(dilscope.Seed((b+1)%3, c.Seed))
				msg2, sig2, _ := validSig(k2, b+10)
				pk = k2.pk
				if ok, _ := libAccepts(c, i, msg2, sig2, &pk, "history step 4 (other key in the same variable)"); !ok {
					c.Fail(i, "history:valid-signature-of-second-key-rejected", map[string]any{"malformation": fmt.Sprint(ms[mi])})
				}
				c.Nontrivial(1)
			}
		}})
	// (1e) a signature for one message must not verify for another one, whatever the lengths and wherever they differ
	wl := []int{1, 2, 31, 32, 33, 64, 135, 136, 137, 255, 256, 257, 258, 271, 272, 273, 287, 288, 289, 290, 511, 512, 513, 1000, 4096}
	ck.Domains = append(ck.Domains, &drv.Domain{Name: "message-window", Size: int64(len(wl)) * 6, Chunk: 6,
		Desc: "for 25 message lengths (around every hashing block boundary and buffer-size candidate: 32, 136, 256, 272, 288, 512 ...): the signature of m against m with its LAST byte changed, its first byte changed, one byte appended, one byte removed, and against the same prefix with a different length: library <=> specification",
		Run: func(c *drv.Ctx, lo, hi int64) {
			for i := lo; i < hi; i++ {
				c.At(i)
				L := wl[i/6]
				k := getKeys(dilscope.Seed(1, c.Seed))
				m := seeds.Bytes(L, fmt.Sprint("window", L), c.Seed)
				r := k.ref.Sign(m, refdil.Skip{})
				var m2 []byte
				what := ""
				switch i % 6 {
				case 0:
					m2, what = m, "same message"
				case 1:
					m2 = append([]byte(nil), m...)
					m2[L-1] ^= 1
					what = "last byte changed"
				case 2:
					m2 = append([]byte(nil), m...)
					m2[0] ^= 0x80
					what = "first byte changed"
				case 3:
					m2, what = append(append([]byte(nil), m...), 0), "one zero byte appended"
				case 4:
					m2, what = m[:L-1], "last byte removed"
				case 5:
					m2 = append(append([]byte(nil), m...), seeds.Bytes(17, "tail", c.Seed)...)
					what = "17 bytes appended"
				}
				compare(c, i, "message-window", fmt.Sprintf("len %d: %s", L, what), k, k.ref.PK, m2, r.Sig, i%6 != 0)
				c.Nontrivial(1)
			}
		}})
	// (2) bit flips
	flips := func(name, tier string, nk int) {
		per := int64(dilithium.CryptoBytes*8 + dilithium.CryptoPublicKeyBytes*8 + 3)
		ck.Domains = append(ck.Domains, &drv.Domain{Name: name, Tier: tier, Size: int64(nk) * per, Chunk: 256,
			Desc: fmt.Sprintf("%d valid triple(s): every single-bit flip of the signature (36760) and of the public key (20736), other message, other key, valid triple", nk),
			Run: func(c *drv.Ctx, lo, hi int64) {
				for i := lo; i < hi; i++ {
					c.At(i)
					kn := int(i / per)
					k := getKeys(dilscope.Seed(kn+1, c.Seed))
					msg, sig, _ := validSig(k, kn)
					f := i % per
					pk := append([]byte(nil), k.ref.PK...)
					s := append([]byte(nil), sig...)
					m := msg
					must := true
					what := ""
					switch {
					case f < dilithium.CryptoBytes*8:
						s[f/8] ^= 1 << uint(f%8)
						what = fmt.Sprintf("sig bit %d", f)
					case f < per-3:
						g := f - dilithium.CryptoBytes*8
						pk[g/8] ^= 1 << uint(g%8)
						what = fmt.Sprintf("pk bit %d", g)
					case f == per-3:
						m = append([]byte(nil), msg...)
						m[0] ^= 1
						what = "other message"
					case f == per-2:
						pk = getKeys(dilscope.Seed(kn+2, c.Seed)).ref.PK
						what = "other key"
					default:
						must = false
						what = "valid triple"
					}
					compare(c, i, "bitflip", fmt.Sprintf("key %d %s", kn, what), k, pk, m, s, must)
					c.Nontrivial(1)
					if f == per-1 {
						if ok, _ := libAccepts(c, i, m, s, &k.pk, what); !ok {
							c.Fail(i, "bitflip:valid-triple-rejected", nil)
						}
						c.Sample(map[string]any{"key": kn, "case": what})
					}
				}
			}})
	}
	flips("bitflips-q", "q", 1)
	flips("bitflips-t", "t", 4)
	// (3) decoder level
	bases := [][]byte{}
	for k := 0; k < 4; k++ {
		var h [8]refdil.Poly
		n := []int{0, 37, 74, 75}[k]
		for j := 0; j < n; j++ {
			h[(j*5)%8][(j*7+k)%256] = 1
		}
		bases = append(bases, refdil.EncodeHint(&h))
	}
	decode := func(c *drv.Ctx, i int64, s []byte, what string) {
		var h [8][256]int32
		var rc int
		if o := drv.Call(func() { h, rc = dilithium.VerifUnpackHint(s) }); o != "ok" {
			c.Fail(i, "decoder-faulted:"+o[:20], map[string]any{"case": what, "hint_section": drv.FullHex(s), "observed": o})
			return
		}
		rh, ok := refdil.DecodeHint(s)
		if (rc == 0) != ok {
			c.Fail(i, fmt.Sprintf("decoder-accepts=%v-reference=%v", rc == 0, ok), map[string]any{"case": what, "hint_section": drv.FullHex(s)})
			return
		}
		if !ok {
			return
		}
		c.Nontrivial(1)
		for a := range h {
			for b := range h[a] {
				if int64(h[a][b]) != rh[a][b] {
					c.Fail(i, "decoded-hint-differs-from-reference", map[string]any{"case": what, "row": a, "position": b})
					return
				}
			}
		}
		if enc := refdil.EncodeHint(&rh); !bytes.Equal(enc, s) {
			c.Fail(i, "accepted-hint-string-not-canonical", map[string]any{"case": what, "hint_section": drv.FullHex(s), "canonical": drv.FullHex(enc)})
		}
	}
	npairs := int64(83 * 82 / 2)
	pairOf := func(p int64) (int, int) {
		x, y := 0, 1
		for t := int64(0); t < p; t++ {
			y++
			if y == 83 {
				x++
				y = x + 1
			}
		}
		return x, y
	}
	alpha := func(orig byte) []byte {
		return []byte{0, 1, 2, 3, 74, 75, 76, 83, 127, 128, 200, 254, 255, orig, orig + 1, orig - 1}
	}
	ck.Domains = append(ck.Domains, &drv.Domain{Name: "decoder-pairs-16", Tier: "q", Size: int64(len(bases)) * npairs, Chunk: 64,
		Desc: "hint decoder vs reference decoder: every PAIR of hint-section bytes x 16x16 value alphabet, 4 base encodings (weights 0,37,74,75)",
		Run: func(c *drv.Ctx, lo, hi int64) {
			for i := lo; i < hi; i++ {
				c.At(i)
				base := bases[i/npairs]
				x, y := pairOf(i % npairs)
				s := append([]byte(nil), base...)
				for _, vx := range alpha(base[x]) {
					for _, vy := range alpha(base[y]) {
						s[x], s[y] = vx, vy
						decode(c, i, s, fmt.Sprintf("base %d bytes %d,%d := %02x,%02x", i/npairs, x, y, vx, vy))
					}
				}
				c.Eval(256)
				c.Outcome("ok")
				if i == 100 {
					c.Sample(map[string]any{"base": drv.FullHex(base), "bytes": fmt.Sprint(x, y)})
				}
			}
		}})
	ck.Domains = append(ck.Domains, &drv.Domain{Name: "decoder-pairs-256", Tier: "t", Size: 2 * npairs, Chunk: 8,
		Desc: "hint decoder vs reference decoder: every PAIR of hint-section bytes x ALL 256x256 values, 2 base encodings (weights 37, 75)",
		Run: func(c *drv.Ctx, lo, hi int64) {
			for i := lo; i < hi; i++ {
				c.At(i)
				base := bases[1+2*(i/npairs)]
				x, y := pairOf(i % npairs)
				s := append([]byte(nil), base...)
				for vx := 0; vx < 256; vx++ {
					for vy := 0; vy < 256; vy++ {
						s[x], s[y] = byte(vx), byte(vy)
						decode(c, i, s, fmt.Sprintf("bytes %d,%d := %02x,%02x", x, y, vx, vy))
					}
				}
				c.Eval(65536)
				c.Outcome("ok")
			}
		}})
	ck.Domains = append(ck.Domains, &drv.Domain{Name: "decoder-z-lanes", Size: 2 << 20, Chunk: 1 << 14, Desc: "unpackSig: every 20-bit pattern at z lanes 0 and 1 decodes to gamma1 - pattern (reference), neighbours untouched",
		Run: func(c *drv.Ctx, lo, hi int64) {
			c.At(lo)
			var sig [dilithium.CryptoBytes]byte
			for i := lo; i < hi; i++ {
				lane := int(i >> 20)
				v := uint32(i & 0xFFFFF)
				for k := 32; k < 40; k++ {
					sig[k] = 0
				}
				if lane == 0 {
					sig[32], sig[33], sig[34] = byte(v), byte(v>>8), byte(v>>16)
				} else {
					sig[34], sig[35], sig[36] = byte(v<<4), byte(v>>4), byte(v>>12)
				}
				_, z, _, rc := dilithium.VerifUnpackSig(sig)
				exp := refdil.UnpackZ(sig[32 : 32+640])
				if rc != 0 || int64(z[0][lane]) != refdil.Centre(exp[lane]) || int64(z[0][1-lane]) != refdil.Centre(exp[1-lane]) || z[0][2] != 1<<19 {
					c.Fail(i, "unpacksig-z-lane", map[string]any{"lane": lane, "pattern": v, "expected": refdil.Centre(exp[lane]), "observed": z[0][lane], "rc": rc})
					break
				}
			}
			c.Eval(hi - lo)
			c.Nontrivial(hi - lo)
			c.Outcome("ok")
		}})
	ck.Domains = append(ck.Domains, archDomain())
	drv.Main(ck)
}
