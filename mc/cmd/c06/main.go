// C06 — XMSS keys and signatures are the fixed QRL-XMSS function of their inputs: byte equality
// with the plain full-tree reference at every index (engine E1 real mode + refxmss), plus the
// repository's own known answers reproduced by the reference, plus Verify == VerifyWithCustomWOTSParamW(16).
package main

import (
	"bytes"
	"crypto/sha256"
	"encoding/hex"
	"fmt"
	"os"
	"os/exec"
	"strings"

	"github.com/theQRL/go-qrllib/common"
	"github.com/theQRL/go-qrllib/xmss"
	"verifmc/drv"
	"verifmc/e1"
	"verifmc/e1cases"
	"verifmc/refxmss"
)

var msgs = [][]byte{{}, {0x42}, bytes.Repeat([]byte{0xA5}, 32), bytes.Repeat([]byte{0x5A}, 33), bytes.Repeat([]byte("QRL"), 334)[:1000]}

type kat struct {
	h                int
	pk, addr, legacy string
}

var kats = []kat{
	{4, "010200c25188b585f731c128e2b457069eafd1e3fa3961605af8c58a1aec4d82ac316d3191da3442686282b3d5160f25cf162a517fd2131f83fbf2698a58f9c46afc5d",
		"0102006f4c94686167e4eb233d3e8e80b14abfa2", "01020095f03f084bcb29b96b0529c17ce92c54c1e8290193a93803812ead95e8e6902506b67897"},
	{6, "010300859060f15adc3825adeec85c7483d868e898bc5117d0cff04ab1343916d407af3191da3442686282b3d5160f25cf162a517fd2131f83fbf2698a58f9c46afc5d",
		"0103003a7d5125fd1d014f972c05b715cfa2f6cd", "0103008b0e18dd0bac2c3fdc9a48e10fc466eef899ef074449d12ddf050317b2083527aee74bc3"},
}

// freshChild: VERIF_C06_FRESH="w:h:hf" — in a process that has not touched the library yet: one custom-w verification
// sized for (w, h), then a key of height h and its first signature; prints hex(pk) hex(sha256(sig)) len(sig).
func freshChild(sel string) {
	var w, h, hf int
	fmt.Sscanf(strings.ReplaceAll(sel, ":", " "), "%d %d %d", &w, &h, &hf)
	var pk [67]byte
	pk[0], pk[1] = byte(hf), byte(h/2)
	blob := make([]byte, refxmss.SigSize(w, h))
	drv.Call(func() { xmss.VerifyWithCustomWOTSParamW([]byte("first call"), blob, pk, uint32(w)) })
	seed := e1.Seed(2, 0)
	out := drv.Call(func() {
		k := xmss.NewXMSSFromSeed(seed, uint8(h), xmss.HashFunction(hf), common.SHA256_2X)
		sig, err := k.Sign(msgs[2])
		if err != nil {
			panic(err.Error())
		}
		p := k.GetPK()
		d := sha256.Sum256(sig)
		fmt.Printf("%s %s %d\n", hex.EncodeToString(p[:]), hex.EncodeToString(d[:]), len(sig))
	})
	if out != "ok" {
		fmt.Println("FAILED " + strings.ReplaceAll(out, "\n", " "))
	}
}

func main() {
	if s := os.Getenv("VERIF_C06_FRESH"); s != "" {
		freshChild(s)
		return
	}
	var extra []*drv.Domain
	extra = append(extra, &drv.Domain{Name: "known-answers", Size: int64(len(kats)), Chunk: 1,
		Desc: "the repository's pinned vectors (zero seed, SHAKE-128, h=4 and h=6: PK, address, legacy address) must be reproduced by the REFERENCE (anchors the reference) and by the library",
		Run: func(c *drv.Ctx, lo, hi int64) {
			for i := lo; i < hi; i++ {
				c.At(i)
				k := kats[i]
				var seed [48]byte
				ref := refxmss.NewKey(seed[:], k.h, refxmss.SHAKE128)
				c.Eval(1)
				c.Nontrivial(1)
				if hex.EncodeToString(ref.PK()) != k.pk || hex.EncodeToString(refxmss.Address(ref.PK())) != k.addr || hex.EncodeToString(refxmss.LegacyAddress(ref.PK())) != k.legacy {
					c.Fail(i, "reference-does-not-reproduce-known-answer", map[string]any{"height": k.h, "observed": hex.EncodeToString(ref.PK()), "expected": k.pk,
						"note": "the reference model is wrong or the pinned vector changed: infrastructure-level problem"})
				}
				lib := xmss.NewXMSSFromSeed(seed, uint8(k.h), xmss.SHAKE_128, common.SHA256_2X)
				pk := lib.GetPK()
				ad := lib.GetAddress()
				la := lib.GetLegacyAddress()
				if hex.EncodeToString(pk[:]) != k.pk || hex.EncodeToString(ad[:]) != k.addr || hex.EncodeToString(la[:]) != k.legacy {
					c.Fail(i, "library-does-not-reproduce-known-answer", map[string]any{"height": k.h, "observed": hex.EncodeToString(pk[:]), "expected": k.pk})
				}
				c.Outcome("reproduced")
				c.Sample(map[string]any{"height": k.h, "pk": k.pk})
			}
		}})
	// every index x 5 message shapes, reached by signing and by a fresh SetIndex(i)
	type cfg struct{ h, hf, seed int }
	mk := func(hs []int, seeds []int) []cfg {
		var cs []cfg
		for _, h := range hs {
			for hf := 0; hf < 3; hf++ {
				for _, s := range seeds {
					cs = append(cs, cfg{h, hf, s})
				}
			}
		}
		return cs
	}
	msgDomain := func(name, tier string, cs []cfg, fresh bool) *drv.Domain {
		return &drv.Domain{Name: name, Tier: tier, Size: int64(len(cs)), Chunk: 1,
			Desc: "for each (h, hash, seed): every index i < 2^h, messages {empty, 1 B, 32 B, 33 B, 1000 B} (rotating start), signature == reference byte for byte; Verify == VerifyWithCustomWOTSParamW(16); fresh=" + fmt.Sprint(fresh),
			Run: func(c *drv.Ctx, lo, hi int64) {
				for ci := lo; ci < hi; ci++ {
					c.At(ci)
					g := cs[ci]
					seed := e1.Seed(g.seed, c.Seed)
					ref := refxmss.NewKey(seed[:], g.h, refxmss.Hash(g.hf))
					lib := xmss.NewXMSSFromSeed(seed, uint8(g.h), xmss.HashFunction(g.hf), common.SHA256_2X)
					pk := lib.GetPK()
					if !bytes.Equal(pk[:], ref.PK()) || !bytes.Equal(lib.GetRoot(), ref.Root()) || !bytes.Equal(lib.GetPKSeed(), ref.PubSeed) {
						c.Fail(ci, "public-key-differs-from-reference", map[string]any{"config": fmt.Sprint(g), "expected": hex.EncodeToString(ref.PK()), "observed": hex.EncodeToString(pk[:])})
						continue
					}
					ad := lib.GetAddress()
					if !bytes.Equal(ad[:], refxmss.Address(ref.PK())) {
						c.Fail(ci, "address-differs-from-reference", nil)
					}
					n := 1 << uint(g.h)
					var prevSig, prevCopy []byte
					for i := 0; i < n; i++ {
						k := lib
						if fresh {
							k = xmss.NewXMSSFromSeed(seed, uint8(g.h), xmss.HashFunction(g.hf), common.SHA256_2X)
							k.SetIndex(uint32(i))
						}
						m := msgs[(i+int(ci))%len(msgs)]
						m0 := append([]byte(nil), m...)
						sig, err := k.Sign(m)
						c.Eval(1)
						c.Nontrivial(1)
						exp := ref.Sign(uint32(i), m0)
						if err != nil || !bytes.Equal(sig, exp) {
							d := 0
							for ; d < len(exp) && d < len(sig) && exp[d] == sig[d]; d++ {
							}
							c.Fail(ci, fmt.Sprintf("signature-differs-from-reference fresh=%v", fresh), map[string]any{"config": fmt.Sprint(g), "index": i, "message_len": len(m), "first_differing_byte": d, "err": fmt.Sprint(err)})
							break
						}
						if !bytes.Equal(m, m0) {
							c.Fail(ci, "sign-modified-message-buffer", nil)
						}
						if prevSig != nil && !bytes.Equal(prevSig, prevCopy) {
							c.Fail(ci, "earlier-signature-changed-by-later-sign(aliasing)", map[string]any{"config": fmt.Sprint(g), "index": i})
							break
						}
						prevSig, prevCopy = sig, append([]byte(nil), sig...)
						v1 := xmss.Verify(m, sig, pk)
						v2 := xmss.VerifyWithCustomWOTSParamW(m, sig, pk, 16)
						bad := append([]byte(nil), sig...)
						bad[40+i%2000] ^= 1
						v3 := xmss.Verify(m, bad, pk)
						v4 := xmss.VerifyWithCustomWOTSParamW(m, bad, pk, 16)
						if !v1 || !v2 || v3 || v4 {
							c.Fail(ci, "verify-vs-customw16-or-reference-signature-rejected", map[string]any{"config": fmt.Sprint(g), "index": i, "Verify": v1, "W16": v2, "Verify(tampered)": v3, "W16(tampered)": v4})
						}
						if i == 1 && ci == 0 {
							c.Sample(map[string]any{"config": fmt.Sprint(g), "index": i, "message_len": len(m), "signature": drv.Hex(sig)})
						}
					}
					c.Outcome("equal")
				}
			}}
	}
	extra = append(extra, msgDomain("messages-seq-h8", "q", mk([]int{8}, []int{4})[1:2], false))
	extra = append(extra, &drv.Domain{Name: "keygen-after-custom-w", Size: 2 * 3, Chunk: 1,
		Desc: "in a fresh process whose FIRST library call is VerifyWithCustomWOTSParamW(w = 4 / 256) on a blob sized for height 4: the key of height 4 generated afterwards and its first signature equal the reference (parameters remembered from a call with another w must not leak into key generation), 3 hash functions",
		Run: func(c *drv.Ctx, lo, hi int64) {
			self, _ := os.Executable()
			for i := lo; i < hi; i++ {
				c.At(i)
				w, hf := []int{4, 256}[i/3], int(i%3)
				cmd := exec.Command(self)
				cmd.Env = append(os.Environ(), fmt.Sprintf("VERIF_C06_FRESH=%d:4:%d", w, hf))
				var eb bytes.Buffer
				cmd.Stderr = &eb
				out, err := cmd.Output()
				c.Eval(1)
				c.Nontrivial(1)
				if err != nil {
					if strings.Contains(eb.String(), "go-qrllib") {
						c.Fail(i, "fresh-process-crashed", map[string]any{"w": w, "hash": hf, "stderr": eb.String()})
					} else {
						c.Cap("a child process could not be run (infrastructure): " + err.Error())
					}
					continue
				}
				seed := e1.Seed(2, 0)
				ref := refxmss.NewKey(seed[:], 4, refxmss.Hash(hf))
				d := sha256.Sum256(ref.Sign(0, msgs[2]))
				want := fmt.Sprintf("%s %s %d", hex.EncodeToString(ref.PK()), hex.EncodeToString(d[:]), refxmss.SigSize(16, 4))
				if got := strings.TrimSpace(string(out)); got != want {
					c.Fail(i, "key-or-signature-after-custom-w-verify-differs-from-reference", map[string]any{"w_of_the_first_call": w, "hash": hf, "expected(pk sig-digest sig-len)": want, "observed": got})
				}
				c.Outcome("equal")
			}
		}})
	extra = append(extra, &drv.Domain{Name: "giant-message-then-continue", Size: 1, Chunk: 1,
		Desc: "a height-4 SHA2-256 key signs 2 ordinary messages, then is asked to sign a message of 2^32+5 zero bytes (read-only no-reserve mapping), then signs ordinary messages to exhaustion: whatever the giant call answers (signature, error or explicit refusal), it must not return the signature of the 5-byte prefix, and every later signature equals the reference signature at the index it carries, verifies, and the indices carried are consecutive",
		Run: func(c *drv.Ctx, lo, hi int64) {
			for i := lo; i < hi; i++ {
				c.At(i)
				seed := e1.Seed(6, c.Seed)
				ref := refxmss.NewKey(seed[:], 4, refxmss.SHA2_256)
				lib := xmss.NewXMSSFromSeed(seed, 4, xmss.SHA2_256, common.SHA256_2X)
				pk := lib.GetPK()
				for j := 0; j < 2; j++ {
					sig, err := lib.Sign(msgs[j+1])
					if err != nil || !bytes.Equal(sig, ref.Sign(uint32(j), msgs[j+1])) {
						c.Fail(i, "signature-differs-from-reference before the giant call", map[string]any{"index": j})
					}
				}
				giant, release := drv.GiantZeros(1<<32 + 5)
				if giant == nil {
					c.Cap("a 4 GiB no-reserve mapping was refused: giant-message-then-continue skipped")
					c.Outcome("skipped")
					continue
				}
				c.Tick()
				var gsig []byte
				var gerr error
				how := drv.Call(func() { gsig, gerr = lib.Sign(giant) })
				release()
				c.Eval(1)
				c.Nontrivial(1)
				answered := how == "ok" && gerr == nil
				c.Outcome(fmt.Sprintf("giant-call-answered=%v", answered))
				next := uint32(2)
				if answered {
					next = 3
					if bytes.Equal(gsig, ref.Sign(2, make([]byte, 5))) {
						c.Fail(i, "giant-message-signed-as-its-5-byte-prefix", map[string]any{"message": "2^32+5 zero bytes", "index": 2})
					}
					if len(gsig) < 4 || gsig[3] != 2 {
						c.Fail(i, "giant-message-signature-carries-wrong-index", map[string]any{"expected": 2})
					}
				}
				first := true
				for {
					m := msgs[int(next)%len(msgs)]
					var sig []byte
					var err error
					if r := drv.Call(func() { sig, err = lib.Sign(m) }); r != "ok" || err != nil {
						break // exhaustion (C02 decides whether it came at the right moment)
					}
					c.Eval(1)
					if len(sig) < 4 {
						c.Fail(i, "short-signature-after-giant-call", nil)
						break
					}
					idx := uint32(sig[0])<<24 | uint32(sig[1])<<16 | uint32(sig[2])<<8 | uint32(sig[3])
					if first && !answered && idx != 2 && idx != 3 {
						c.Fail(i, "index-after-unanswered-giant-call-is-neither-2-nor-3", map[string]any{"observed": idx})
						break
					}
					if (!first || answered) && idx != next {
						c.Fail(i, "indices-after-giant-call-not-consecutive", map[string]any{"expected": next, "observed": idx, "giant_call": how, "giant_err": fmt.Sprint(gerr)})
						break
					}
					if idx >= 16 || !bytes.Equal(sig, ref.Sign(idx, m)) || !xmss.Verify(m, sig, pk) {
						c.Fail(i, "signature-after-giant-call-differs-from-reference-or-does-not-verify", map[string]any{"index_carried": idx, "giant_call": how, "giant_err": fmt.Sprint(gerr),
							"expected": "the reference signature of the message at the carried index (one refused or failed call must not leave index and traversal state out of step)"})
						break
					}
					first = false
					next = idx + 1
				}
				if next != 16 {
					c.Fail(i, "key-did-not-reach-its-last-index-after-giant-call", map[string]any{"next_index": next})
				}
			}
		}})
	extra = append(extra, msgDomain("messages-seq-q", "q", mk([]int{4}, []int{0, 1, 3}), false))
	extra = append(extra, msgDomain("messages-fresh-q", "q", mk([]int{4}, []int{2}), true))
	extra = append(extra, msgDomain("messages-seq-t", "t", append(mk([]int{4, 6}, []int{0, 1, 2, 3}), mk([]int{8}, []int{4})...), false))
	extra = append(extra, msgDomain("messages-fresh-t", "t", mk([]int{4, 6}, []int{1, 5}), true))
	e1cases.MainWith("C06", extra)
}
