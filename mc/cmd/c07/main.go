// C07 — Dilithium keys and signatures equal the round-3.1 level-5 specification (refdil, plain
// arithmetic), boundary cases of the rejection tests sought out deliberately; samplers presented
// with their full input domains; every call order of length <= 3 on one key.
package main

import (
	"bufio"
	"bytes"
	"crypto/sha256"
	"encoding/hex"
	"encoding/json"
	"fmt"
	"os"
	"runtime"
	"sort"
	"strings"

	"github.com/theQRL/go-qrllib/dilithium"
	"verifmc/chalcorpus"
	"verifmc/dilscope"
	"verifmc/drv"
	"verifmc/refdil"
)

type keys struct {
	ref *refdil.Key
	lib *dilithium.Dilithium
}

var cache = map[[48]byte]*keys{}

func getKeys(seed [48]byte) *keys {
	if k, ok := cache[seed]; ok {
		return k
	}
	lib, err := dilithium.NewDilithiumFromSeed(seed)
	if err != nil {
		panic(err)
	}
	k := &keys{refdil.KeyGenFromWalletSeed(seed[:]), lib}
	if len(cache) > 64 {
		cache = map[[48]byte]*keys{}
	}
	cache[seed] = k
	return k
}

func pathSig(p []refdil.Iter) string {
	var s []string
	for _, it := range p {
		s = append(s, it.Exit)
	}
	return strings.Join(s, ">")
}

func boundaryKinds(p []refdil.Iter) []string {
	var out []string
	for k, it := range p {
		// each slack is only meaningful if the iteration got that far
		if it.SlackZ == 0 || it.SlackZ == -1 {
			out = append(out, fmt.Sprintf("z=%d@%d", it.SlackZ, k))
		}
		if it.Exit != "z" && (it.SlackR0 == 0 || it.SlackR0 == -1) {
			out = append(out, fmt.Sprintf("r0=%d@%d", it.SlackR0, k))
		}
		if (it.Exit == "hint" || it.Exit == "accept") && (it.SlackHint == 0 || it.SlackHint == 1) {
			out = append(out, fmt.Sprintf("hint=%d@%d", it.SlackHint, k))
		}
	}
	return out
}

// compareSign: library signature/seal for (seed,msg) byte-equal to the specification's.
func compareSign(c *drv.Ctx, idx int64, seed [48]byte, msg []byte, label string) []refdil.Iter {
	k := getKeys(seed)
	m0 := append([]byte(nil), msg...)
	r := k.ref.Sign(m0, refdil.Skip{})
	sig, err := k.lib.Sign(msg)
	c.Eval(1)
	if err != nil || !bytes.Equal(sig[:], r.Sig) {
		d := 0
		for ; d < len(r.Sig) && r.Sig[d] == sig[d]; d++ {
		}
		c.Fail(idx, "signature-differs-from-specification", map[string]any{"case": label, "seed": hex.EncodeToString(seed[:]), "message": drv.Hex(m0), "spec_path": pathSig(r.Path),
			"first_differing_byte": d, "boundaries": boundaryKinds(r.Path), "err": fmt.Sprint(err)})
	}
	c.SetAdd("paths", pathSig(r.Path))
	for _, it := range r.Path {
		c.SetAdd("exits", it.Exit)
	}
	for _, b := range boundaryKinds(r.Path) {
		c.SetAdd("boundary_kinds", b[:strings.Index(b, "@")])
	}
	if len(r.Path) >= 2 {
		c.Nontrivial(1)
	}
	return r.Path
}

type corpusEntry struct {
	Seed string `json:"seed"`
	Msg  string `json:"msg,omitempty"`
	Kind string `json:"kind"`
}

func loadCorpus() []corpusEntry {
	p := os.Getenv("VERIF_CORPUS")
	if p == "" {
		p = drv.CorpusPath("c07.jsonl")
	}
	f, err := os.Open(p)
	if err != nil {
		return nil
	}
	defer f.Close()
	var out []corpusEntry
	sc := bufio.NewScanner(f)
	sc.Buffer(make([]byte, 1<<20), 1<<20)
	for sc.Scan() {
		var e corpusEntry
		if json.Unmarshal(sc.Bytes(), &e) == nil && e.Seed != "" {
			out = append(out, e)
		}
	}
	return out
}

func loadKeyCorpus() []corpusEntry {
	f, err := os.Open(drv.CorpusPath("c07-keys.jsonl"))
	if err != nil {
		return nil
	}
	defer f.Close()
	var out []corpusEntry
	sc := bufio.NewScanner(f)
	for sc.Scan() {
		var e corpusEntry
		if json.Unmarshal(sc.Bytes(), &e) == nil && e.Seed != "" {
			out = append(out, e)
		}
	}
	return out
}

// checkKey: library key pair for seed byte-equal to the specification's; one signature compared too.
// wantKind (if not empty) must be among the boundary kinds the model reports for this seed.
func checkKey(c *drv.Ctx, i int64, seed [48]byte, wantKind string) []string {
	ref := refdil.KeyGenFromWalletSeed(seed[:])
	lib, err := dilithium.NewDilithiumFromSeed(seed)
	c.Eval(1)
	if err != nil {
		c.Fail(i, "keygen-error", map[string]any{"seed": hex.EncodeToString(seed[:])})
		return nil
	}
	kinds := ref.KeyBoundaries()
	pk, sk := lib.GetPK(), lib.GetSK()
	if !bytes.Equal(pk[:], ref.PK) {
		c.Fail(i, "public-key-differs-from-specification", map[string]any{"seed": hex.EncodeToString(seed[:]), "boundaries": kinds})
	}
	if !bytes.Equal(sk[:], ref.SK) {
		d := 0
		for ; d < len(sk) && sk[d] == ref.SK[d]; d++ {
		}
		c.Fail(i, "secret-key-differs-from-specification", map[string]any{"seed": hex.EncodeToString(seed[:]), "first_differing_byte": d, "boundaries": kinds})
	}
	if wantKind != "" {
		msg := []byte("keygen corpus message")
		r := ref.Sign(msg, refdil.Skip{})
		sg, _ := lib.Sign(msg)
		if !bytes.Equal(sg[:], r.Sig) || !dilithium.Verify(msg, sg, &pk) {
			c.Fail(i, "signature-of-boundary-key-differs-or-does-not-verify", map[string]any{"seed": hex.EncodeToString(seed[:]), "boundaries": kinds})
		}
		ok := false
		for _, kd := range kinds {
			if kd == wantKind {
				ok = true
			}
		}
		if ok {
			c.Nontrivial(1)
			c.Count("keycorpus:"+wantKind, 1)
		} else {
			c.Warn(fmt.Sprintf("key corpus entry %d no longer classified as %s by the model", i, wantKind))
		}
		c.Outcome(wantKind)
		c.Sample(map[string]any{"seed": hex.EncodeToString(seed[:]), "kind": wantKind})
	}
	return kinds
}

var optDomains []*drv.Domain

func sha(b []byte) string { s := sha256.Sum256(b); return hex.EncodeToString(s[:]) }

func main() {
	ck := &drv.Check{Property: "C07", Level: "model_checking",
		Rule: "bounded exhaustive enumeration against a plain-arithmetic specification model: the full cross product of the (seed, message) scope; a corpus of inputs on which a rejection test is met with slack -1/0 (re-validated by the model on every run); " +
			"the samplers on their full input domains (all 2^24 three-byte groups, all bytes x capacities); every call order of length <= 3 on one key. non-trivial = a signature whose rejection loop ran >= 2 iterations, a boundary-corpus entry, or a sampler input",
		Assumptions: []string{"seed space 2^384 covered by a fixed scope; exhaustive over the scope and over the rejection loop's exits (z, low-bits, hint-count, accept); the ct0 exit is dead code at level 5",
			"polyUniform's refill path (needs > 24 rejections among 280 samples, p ~ 1e-50) is not reachable by any seed and is not asserted", "sha3 trusted"}}
	ck.Domains = append(ck.Domains, &drv.Domain{Name: "known-answer", Size: 1, Desc: "the specification model must reproduce the repository's pinned key, signature and sealed message (anchors the model); so must the library",
		Run: func(c *drv.Ctx, lo, hi int64) {
			seedB, _ := hex.DecodeString("f29f58aff0b00de2844f7e20bd9eeaacc379150043beeb328335817512b29fbb7184da84a092f842b2a06d72a24a5d28")
			var seed [48]byte
			copy(seed[:], seedB)
			k := getKeys(seed)
			msg := []byte{0, 1, 2, 4, 6, 9, 1}
			r := k.ref.Sign(msg, refdil.Skip{})
			c.Eval(1)
			c.Nontrivial(1)
			got := []string{sha(k.ref.PK), sha(k.ref.SK), sha(r.Sig), sha(append(append([]byte(nil), r.Sig...), msg...))}
			want := []string{"00e002ee6a1009a986e0a1f6a7d7fd2f8d3a44fb93cfa1971cf2c1be501ef109", "2e4dd7944368f5b70f98bde1b78e0be80c24f4a0e68b7e2adcc4cb10b950a326",
				"9e1a4318041e0452467e0e6d490023f7f6ebb17df0914583e60fa25339bf4d40", "349330407342b4fee193ab7bc83d5c65163a694feee3f666d0c3368eb508fdac"}
			for i := range got {
				if got[i] != want[i] {
					c.Fail(0, fmt.Sprintf("specification-model-does-not-reproduce-known-answer part=%d", i), map[string]any{"expected_sha256": want[i], "observed_sha256": got[i]})
				}
			}
			pk, sk := k.lib.GetPK(), k.lib.GetSK()
			sig, _ := k.lib.Sign(msg)
			sm, _ := k.lib.Seal(msg)
			lg := []string{sha(pk[:]), sha(sk[:]), sha(sig[:]), sha(sm)}
			for i := range lg {
				if lg[i] != want[i] {
					c.Fail(0, fmt.Sprintf("library-does-not-reproduce-known-answer part=%d", i), map[string]any{"expected_sha256": want[i], "observed_sha256": lg[i]})
				}
			}
			c.Outcome("reproduced")
			c.Sample(map[string]any{"seed": hex.EncodeToString(seed[:]), "message": "00010204060901", "spec_path": pathSig(r.Path)})
		}})
	scope := func(name, tier string, ns, nm int) {
		ck.Domains = append(ck.Domains, &drv.Domain{Name: name, Tier: tier, Size: int64(ns * nm), Chunk: int64(nm),
			Desc: fmt.Sprintf("scope cross product: %d seeds x %d messages (lengths 0..10000, two fills): GetPK, GetSK, Sign, Seal byte-equal to the specification", ns, nm),
			Run: func(c *drv.Ctx, lo, hi int64) {
				for i := lo; i < hi; i++ {
					c.At(i)
					si, mi := int(i)/nm, int(i)%nm
					seed := dilscope.Seed(si, c.Seed)
					msg := dilscope.Msg(mi*28/nm, c.Seed)
					k := getKeys(seed)
					if mi == 0 {
						pk, sk := k.lib.GetPK(), k.lib.GetSK()
						if !bytes.Equal(pk[:], k.ref.PK) {
							c.Fail(i, "public-key-differs-from-specification", map[string]any{"seed": hex.EncodeToString(seed[:])})
						}
						if !bytes.Equal(sk[:], k.ref.SK) {
							d := 0
							for ; d < len(sk) && sk[d] == k.ref.SK[d]; d++ {
							}
							c.Fail(i, "secret-key-differs-from-specification", map[string]any{"seed": hex.EncodeToString(seed[:]), "first_differing_byte": d})
						}
					}
					p := compareSign(c, i, seed, msg, fmt.Sprintf("scope seed#%d msg#%d", si, mi))
					sm, err := k.lib.Seal(msg)
					sig, _ := k.lib.Sign(msg)
					if err != nil || !bytes.Equal(sm[:len(sig)], sig[:]) || !bytes.Equal(sm[len(sig):], msg) {
						c.Fail(i, "seal-differs-from-sign-plus-message", map[string]any{"seed": hex.EncodeToString(seed[:]), "message": drv.Hex(msg)})
					}
					c.Outcome(fmt.Sprintf("iterations=%d", len(p)))
					if i == 3 {
						c.Sample(map[string]any{"seed": hex.EncodeToString(seed[:]), "message_len": len(msg), "spec_path": pathSig(p)})
					}
				}
			}})
	}
	scope("scope-q", "q", 8, 8)
	scope("scope-t", "t", 64, 28)
	corpus := loadCorpus()
	ck.Domains = append(ck.Domains, &drv.Domain{Name: "boundary-corpus", Size: int64(len(corpus)) + 1, Chunk: 1,
		Desc: "committed (seed,msg) pairs on which the specification model meets a rejection test with slack -1/0 (max|z| = g1-b-1 / g1-b; low bits g2-b-1 / g2-b; #hints = w / w+1); each entry is re-classified by the model on every run",
		Run: func(c *drv.Ctx, lo, hi int64) {
			for i := lo; i < hi; i++ {
				c.At(i)
				if i == int64(len(corpus)) {
					c.Outcome("sentinel")
					continue
				}
				e := corpus[i]
				sb, _ := hex.DecodeString(e.Seed)
				msg, _ := hex.DecodeString(e.Msg)
				var seed [48]byte
				copy(seed[:], sb)
				p := compareSign(c, i, seed, msg, "corpus "+e.Kind)
				ok := false
				for _, b := range boundaryKinds(p) {
					if b[:strings.Index(b, "@")] == e.Kind {
						ok = true
					}
				}
				if !ok {
					c.Warn(fmt.Sprintf("corpus entry %d no longer classified as %s by the model (dropped)", i, e.Kind))
					c.Count("corpus_entries_dropped", 1)
				} else {
					c.Nontrivial(1)
					c.Count("corpus:"+e.Kind, 1)
				}
				c.Outcome(e.Kind)
				c.Sample(map[string]any{"kind": e.Kind, "seed": e.Seed, "msg": e.Msg, "spec_path": pathSig(p)})
			}
		}})
	ck.Domains = append(ck.Domains, &drv.Domain{Name: "boundary-search", Tier: "t", Size: 4 * 3000, Chunk: 50,
		Desc: "counter-space search: 4 seeds x messages 'verif-c07-<i>', i < 3000; every signature compared with the specification; boundary hits counted (and exported as corpus when VERIF_CORPUS_OUT is set)",
		Run: func(c *drv.Ctx, lo, hi int64) {
			for i := lo; i < hi; i++ {
				c.At(i)
				seed := dilscope.Seed(int(i/3000), 0)
				msg := []byte(fmt.Sprintf("verif-c07-%d", i%3000))
				p := compareSign(c, i, seed, msg, "search")
				for _, b := range boundaryKinds(p) {
					kind := b[:strings.Index(b, "@")]
					e, _ := json.Marshal(corpusEntry{hex.EncodeToString(seed[:]), hex.EncodeToString(msg), kind})
					c.SetAdd("corpus", string(e))
					c.Count("hits:"+kind, 1)
				}
				c.Count("iterations", int64(len(p)))
			}
			c.Outcome("searched")
		}})
	// key-generation boundaries
	keyCorpus := loadKeyCorpus()
	ck.Domains = append(ck.Domains, &drv.Domain{Name: "keygen-corpus", Size: int64(len(keyCorpus)) + 1, Chunk: 1,
		Desc: "committed seeds on which key generation meets a boundary according to the specification model (a coefficient of A*s1+s2 leaving [0,q) before reduction; a Power2Round tie, t0 = +4096; t = 0 / q-1): pk and sk byte-equal to the model, and a signature of the key verifies and equals the model's",
		Run: func(c *drv.Ctx, lo, hi int64) {
			for i := lo; i < hi; i++ {
				c.At(i)
				if i == int64(len(keyCorpus)) {
					c.Outcome("sentinel")
					continue
				}
				e := keyCorpus[i]
				sb, _ := hex.DecodeString(e.Seed)
				var seed [48]byte
				copy(seed[:], sb)
				checkKey(c, i, seed, e.Kind)
			}
		}})
	ck.Domains = append(ck.Domains, &drv.Domain{Name: "keygen-search", Tier: "t", Size: 24000, Chunk: 20,
		Desc: "counter-space search over 24000 seeds 'verif-c07-key-<i>': every key pair compared with the specification; key-generation boundary hits counted (exported as corpus when VERIF_KEYCORPUS_OUT is set)",
		Run: func(c *drv.Ctx, lo, hi int64) {
			for i := lo; i < hi; i++ {
				c.At(i)
				var seed [48]byte
				h := sha256.Sum256([]byte(fmt.Sprintf("verif-c07-key-%d", i)))
				copy(seed[:], h[:])
				copy(seed[32:], h[:16])
				kinds := checkKey(c, i, seed, "")
				for _, kd := range kinds {
					c.Count("hits:"+kd, 1)
					if kd == "t-wrap" || int(i)%97 == 0 {
						e, _ := json.Marshal(corpusEntry{Seed: hex.EncodeToString(seed[:]), Kind: kd})
						c.SetAdd("keycorpus", string(e))
					}
				}
			}
			c.Outcome("searched")
		}})
	// samplers
	ck.Domains = append(ck.Domains, &drv.Domain{Name: "rejuniform-groups", Size: 1 << 24, Chunk: 1 << 16, Desc: "rejUniform on every 3-byte group: accepted iff (23-bit value) < q, value preserved",
		Run: func(c *drv.Ctx, lo, hi int64) {
			c.At(lo)
			var a [2]int32
			for i := lo; i < hi; i++ {
				buf := []byte{byte(i), byte(i >> 8), byte(i >> 16)}
				a[0] = -1
				n := dilithium.VerifRejUniform(a[:1], buf)
				t := int32(i & 0x7FFFFF)
				if (t < refdil.Q) != (n == 1) || (n == 1 && a[0] != t) {
					c.Fail(i, "rejuniform-group", map[string]any{"bytes": drv.Hex(buf), "expected_accept": t < refdil.Q, "observed_count": n, "observed_value": a[0]})
					break
				}
			}
			c.Eval(hi - lo)
			c.Nontrivial(hi - lo)
			c.Outcome("ok")
			if lo == 0 {
				c.Sample(map[string]any{"bytes": "01e07f", "accepted": false})
			}
		}})
	ck.Domains = append(ck.Domains, &drv.Domain{Name: "rejuniform-shapes", Size: 12 * 5 * 4, Chunk: 20, Desc: "buffers of 0..11 bytes (ending mid-group) x output capacity 0..4 x 4 fills vs the specification sampler",
		Run: func(c *drv.Ctx, lo, hi int64) {
			for i := lo; i < hi; i++ {
				c.At(i)
				bl, capn, fl := int(i%12), int(i/12%5), int(i/60)
				buf := make([]byte, bl)
				for k := range buf {
					buf[k] = []byte{0x00, 0xFF, byte(0x7F - k), byte(k * 37)}[fl]
				}
				a := make([]int32, capn)
				var n uint32
				out := drv.Call(func() { n = dilithium.VerifRejUniform(a, buf) })
				var exp []int32
				for p := 0; p+3 <= bl && len(exp) < capn; p += 3 {
					t := int32(buf[p]) | int32(buf[p+1])<<8 | int32(buf[p+2]&0x7F)<<16
					if t < refdil.Q {
						exp = append(exp, t)
					}
				}
				c.Eval(1)
				c.Nontrivial(1)
				if out != "ok" || int(n) != len(exp) || !eq32(a[:len(exp)], exp) {
					c.Fail(i, "rejuniform-shape", map[string]any{"buffer": drv.Hex(buf), "capacity": capn, "expected": fmt.Sprint(exp), "observed": fmt.Sprint(out, n, a)})
				}
				c.Outcome(fmt.Sprint(n))
			}
		}})
	ck.Domains = append(ck.Domains, &drv.Domain{Name: "rejeta", Size: 65536 * 6, Chunk: 4096, Desc: "rejEta on every 2-byte buffer x output capacity 0..5 (incl. the cut between the two nibbles) vs the specification sampler",
		Run: func(c *drv.Ctx, lo, hi int64) {
			c.At(lo)
			for i := lo; i < hi; i++ {
				buf := []byte{byte(i), byte(i >> 8)}
				capn := int(i >> 16)
				a := make([]int32, capn)
				n := dilithium.VerifRejEta(a, buf)
				var exp []int32
				for _, b := range buf {
					if len(exp) >= capn {
						break
					}
					for _, t := range []int32{int32(b & 15), int32(b >> 4)} {
						if t < 15 && len(exp) < capn {
							exp = append(exp, 2-t%5)
						}
					}
				}
				if int(n) != len(exp) || !eq32(a[:len(exp)], exp) {
					c.Fail(i, "rejeta", map[string]any{"buffer": drv.Hex(buf), "capacity": capn, "expected": fmt.Sprint(exp), "observed": fmt.Sprint(n, a)})
					break
				}
			}
			c.Eval(hi - lo)
			c.Nontrivial(hi - lo)
			c.Outcome("ok")
			if lo == 0 {
				c.Sample(map[string]any{"buffer": "f0", "capacity": 2, "expected": "[2]"})
			}
		}})
	chal := chalcorpus.Load()
	ck.Domains = append(ck.Domains, &drv.Domain{Name: "challenge-corpus", Size: int64(len(chal)) + 1, Chunk: 8,
		Desc: "polyChallenge == SampleInBall on the committed corpus of challenge seeds (out of 2^30 enumerated seeds, those whose sampler rejects the most positions and so reads furthest into the XOF output)",
		Run: func(c *drv.Ctx, lo, hi int64) {
			for i := lo; i < hi; i++ {
				c.At(i)
				if i == int64(len(chal)) {
					if len(chal) == 0 {
						c.Cap("challenge corpus missing")
					}
					c.Outcome("sentinel")
					continue
				}
				e := chal[i]
				var ch [refdil.N]int32
				var err error
				out := drv.Call(func() { ch, err = dilithium.VerifPolyChallenge(e.Bytes) })
				ref := refdil.SampleInBall(e.Bytes)
				c.Eval(1)
				c.Nontrivial(1)
				c.Max("xof_bytes_read", int64(e.Read))
				if out != "ok" || err != nil || !eqRef(ch, &ref) {
					c.Fail(i, "polychallenge-on-corpus-seed", map[string]any{"seed": e.Seed, "xof_bytes_read": e.Read, "observed": fmt.Sprint(out, " ", err)})
				}
				c.Outcome("ok")
			}
		}})
	ck.Domains = append(ck.Domains, &drv.Domain{Name: "xof-samplers", Size: 2000, Chunk: 25, Desc: "polyChallenge, polyUniform, polyUniformEta (second-block path counted) on 2000 (seed, nonce) pairs vs SampleInBall / ExpandA / ExpandS / ExpandMask",
		Run: func(c *drv.Ctx, lo, hi int64) {
			for i := lo; i < hi; i++ {
				c.At(i)
				s64 := sha256.Sum256([]byte(fmt.Sprintf("verif-c07-sampler-%d-%d", i, c.Seed)))
				var seed32 [32]byte = s64
				var seed64 [64]byte
				copy(seed64[:], s64[:])
				copy(seed64[32:], s64[:])
				seed64[40] ^= byte(i)
				nonce := uint16(i*257 + i>>3)
				ch, err := dilithium.VerifPolyChallenge(seed32[:])
				ref := refdil.SampleInBall(seed32[:])
				c.Eval(3)
				c.Nontrivial(3)
				if err != nil || !eqRef(ch, &ref) {
					c.Fail(i, "polychallenge", map[string]any{"seed": hex.EncodeToString(seed32[:])})
				}
				// ExpandA entry (i_row, j_col) with nonce = 256*r + s
				r, s := int(i)%refdil.K, int(i/8)%refdil.L
				pu, err := dilithium.VerifPolyUniform(&seed32, uint16(r<<8+s))
				A := expandAEntry(seed32[:], r, s)
				if err != nil || !eqRef(pu, &A) {
					c.Fail(i, "polyuniform", map[string]any{"seed": hex.EncodeToString(seed32[:]), "nonce": r<<8 + s})
				}
				pe, err := dilithium.VerifPolyUniformEta(&seed64, nonce)
				es := refdil.ExpandS(seed64[:], nonce)
				if err != nil || !eqRef(pe, &es) {
					c.Fail(i, "polyuniformeta", map[string]any{"seed": hex.EncodeToString(seed64[:]), "nonce": nonce})
				}
				if refdil.EtaNeedsSecondBlock(seed64[:], nonce) {
					c.Count("eta_second_block_path", 1)
				}
				c.Outcome("ok")
				if i == 0 {
					c.Sample(map[string]any{"seed32": hex.EncodeToString(seed32[:]), "nonce": nonce})
				}
			}
		}})
	if len(optDomains) < 3 {
		ck.Domains = append(ck.Domains, &drv.Domain{Name: "optional-domains-skipped", Size: 1, Run: func(c *drv.Ctx, lo, hi int64) {
			c.Cap("an optional hook does not fit this tree: one or more of expandmask-vector, expandmask-poly, forced-rejections skipped")
			c.Outcome("skipped")
		}})
	}
	ck.Domains = append(ck.Domains, optDomains...)
	ck.Domains = append(ck.Domains, &drv.Domain{Name: "returned-buffer-mutation", Size: 24, Chunk: 2, Desc: "Seal(m); the caller edits the RETURNED blob in place (message part, signature part); then Sign / Seal of the edited message and of the original: every result equals the specification's (a memo keyed on storage the library handed out shows here)",
		Run: func(c *drv.Ctx, lo, hi int64) {
			for i := lo; i < hi; i++ {
				c.At(i)
				seed := dilscope.Seed(int(i%4), c.Seed)
				k := getKeys(seed)
				lib, _ := dilithium.NewDilithiumFromSeed(seed)
				m := []byte(fmt.Sprintf("returned buffer mutation %d ........", i))
				m2 := append([]byte(nil), m...)
				m2[3] ^= 0x20
				m2[len(m2)-1] ^= 1
				refSig := func(x []byte) []byte { return k.ref.Sign(x, refdil.Skip{}).Sig }
				sm, _ := lib.Seal(m)
				step := "seal"
				check := func(got []byte, want []byte, what string) {
					if !bytes.Equal(got, want) {
						c.Fail(i, "returned-buffer-mutation:"+what, map[string]any{"after": step, "seed#": i % 4})
					}
				}
				check(sm[:dilithium.CryptoBytes], refSig(m), "seal differs from specification")
				switch i / 4 % 3 {
				case 0: // edit the message part of the returned blob so that it now holds m2
					copy(sm[dilithium.CryptoBytes:], m2)
					step = "message part of the sealed blob edited to m2"
				case 1: // edit the slice returned by ExtractMessage
					em := dilithium.ExtractMessage(sm)
					copy(em, m2)
					step = "slice from ExtractMessage edited to m2"
				case 2: // scribble over the signature part
					for t := 0; t < 64; t++ {
						sm[t] ^= 0xFF
					}
					step = "signature part of the sealed blob scribbled"
				}
				s2, _ := lib.Sign(m2)
				check(s2[:], refSig(m2), "sign(m2) differs from specification")
				s1, _ := lib.Sign(m)
				check(s1[:], refSig(m), "sign(m) differs from specification")
				if i/12 == 1 {
					sm2, _ := lib.Seal(m2)
					check(sm2[:dilithium.CryptoBytes], refSig(m2), "seal(m2) differs from specification")
				}
				pk := lib.GetPK()
				if !dilithium.Verify(m2, s2, &pk) || !dilithium.Verify(m, s1, &pk) {
					c.Fail(i, "returned-buffer-mutation:signature does not verify", map[string]any{"after": step})
				}
				c.Eval(3)
				c.Nontrivial(1)
				c.Outcome("ok")
			}
		}})
	// call orders
	ops := []string{"Sign(m0)", "Sign(m1)", "Seal(m0)", "Verify", "GetPK", "Verify(under a key sharing the first 8 bytes of rho)", "Verify+Sign(with another key)", "Open(garbage)"}
	var seqs [][]int
	nops := len(ops)
	for a := 0; a < nops; a++ {
		seqs = append(seqs, []int{a})
		for b := 0; b < nops; b++ {
			seqs = append(seqs, []int{a, b})
			for d := 0; d < nops; d++ {
				seqs = append(seqs, []int{a, b, d})
			}
		}
	}
	ck.Domains = append(ck.Domains, &drv.Domain{Name: "call-orders", Size: int64(len(seqs)), Chunk: 5, Desc: "every sequence of length <= 3 over {Sign(m0), Sign(m1), Seal(m0), Verify, GetPK, Verify under a rho-neighbour key, use of another key, Open(garbage)} on ONE key object: every result equals the specification's regardless of history",
		Run: func(c *drv.Ctx, lo, hi int64) {
			seed := dilscope.Seed(2, c.Seed)
			k := getKeys(seed)
			m := [][]byte{[]byte("call order message zero"), []byte("call order message one, longer ..................")}
			refSig := [][]byte{k.ref.Sign(m[0], refdil.Skip{}).Sig, k.ref.Sign(m[1], refdil.Skip{}).Sig}
			for i := lo; i < hi; i++ {
				c.At(i)
				lib, _ := dilithium.NewDilithiumFromSeed(seed) // fresh object per sequence
				var names []string
				for _, o := range seqs[i] {
					names = append(names, ops[o])
					bad := ""
					switch o {
					case 0, 1:
						s, err := lib.Sign(m[o])
						if err != nil || !bytes.Equal(s[:], refSig[o]) {
							bad = "signature differs from specification"
						}
					case 2:
						sm, err := lib.Seal(m[0])
						if err != nil || !bytes.Equal(sm, append(append([]byte(nil), refSig[0]...), m[0]...)) {
							bad = "sealed message differs from specification"
						}
					case 3:
						var s [dilithium.CryptoBytes]byte
						copy(s[:], refSig[1])
						pk := lib.GetPK()
						if !dilithium.Verify(m[1], s, &pk) {
							bad = "specification signature rejected"
						}
					case 4:
						pk := lib.GetPK()
						if !bytes.Equal(pk[:], k.ref.PK) {
							bad = "public key changed"
						}
					case 5:
						var s [dilithium.CryptoBytes]byte
						copy(s[:], refSig[1])
						pk := lib.GetPK()
						pk[9] ^= 0x40 // same first 8 bytes of rho, different matrix
						if dilithium.Verify(m[1], s, &pk) {
							bad = "signature accepted under a different key"
						}
					case 6:
						o, _ := dilithium.NewDilithiumFromSeed(dilscope.Seed(5, c.Seed))
						so, _ := o.Sign(m[0])
						po := o.GetPK()
						if !dilithium.Verify(m[0], so, &po) {
							bad = "other key's signature rejected"
						}
					case 7:
						pk := lib.GetPK()
						if dilithium.Open(make([]byte, dilithium.CryptoBytes+5), &pk) != nil {
							bad = "garbage opened"
						}
					}
					if bad != "" {
						c.Fail(i, "call-order:"+bad, map[string]any{"sequence": strings.Join(names, "; ")})
					}
				}
				c.Eval(int64(len(seqs[i])))
				c.Nontrivial(1)
				c.Outcome("ok")
				if i == 7 {
					c.Sample(map[string]any{"sequence": strings.Join(names, "; ")})
				}
			}
		}})
	ck.Domains = append(ck.Domains, &drv.Domain{Name: "key-object-storage-reuse", Size: 5, Chunk: 1, Desc: "key objects whose STORAGE is reused: a key object that has signed is overwritten in place by another key (*d = *other, both orders, and there-and-back), a value copy of a key object signs, and 48 short-lived key objects of two alternating seeds are created, used and dropped with garbage collections in between (so later objects land on earlier objects' addresses): every signature equals the specification's for the key the object holds NOW, and verifies under the object's own public key",
		Run: func(c *drv.Ctx, lo, hi int64) {
			sa, sb := dilscope.Seed(2, c.Seed), dilscope.Seed(5, c.Seed)
			ka, kb := getKeys(sa), getKeys(sb)
			m := []byte("storage reuse message")
			ra, rb := ka.ref.Sign(m, refdil.Skip{}).Sig, kb.ref.Sign(m, refdil.Skip{}).Sig
			mk := func(s [48]byte) *dilithium.Dilithium { d, _ := dilithium.NewDilithiumFromSeed(s); return d }
			chk := func(i int64, what string, d *dilithium.Dilithium, want []byte, wantPK []byte) {
				sig, err := d.Sign(m)
				pk := d.GetPK()
				c.Eval(1)
				if err != nil || !bytes.Equal(sig[:], want) || !bytes.Equal(pk[:], wantPK) || !dilithium.Verify(m, sig, &pk) {
					c.Fail(i, "storage-reuse:signature-is-not-the-specification's-for-the-key-now-held", map[string]any{"step": what, "equals_spec": bytes.Equal(sig[:], want), "pk_equals_spec": bytes.Equal(pk[:], wantPK), "verifies_under_own_pk": dilithium.Verify(m, sig, &pk)})
				}
			}
			for i := lo; i < hi; i++ {
				c.At(i)
				c.Nontrivial(1)
				switch i {
				case 0, 1:
					first, second, r1, r2, k1, k2 := sa, sb, ra, rb, ka, kb
					if i == 1 {
						first, second, r1, r2, k1, k2 = sb, sa, rb, ra, kb, ka
					}
					d := mk(first)
					chk(i, "first key", d, r1, k1.ref.PK)
					*d = *mk(second)
					chk(i, "after *d = *other", d, r2, k2.ref.PK)
					chk(i, "after *d = *other, again", d, r2, k2.ref.PK)
				case 2:
					d := mk(sa)
					*d = *mk(sb)
					chk(i, "overwritten before first use", d, rb, kb.ref.PK)
					*d = *mk(sa)
					chk(i, "overwritten back", d, ra, ka.ref.PK)
				case 3:
					d := mk(sa)
					chk(i, "original", d, ra, ka.ref.PK)
					cp := *d
					chk(i, "value copy", &cp, ra, ka.ref.PK)
					cp = *mk(sb)
					chk(i, "value copy reassigned", &cp, rb, kb.ref.PK)
					chk(i, "original after the copy was reassigned", d, ra, ka.ref.PK)
				case 4:
					for j := 0; j < 48; j++ {
						d := mk(sa)
						want, wk := ra, ka
						if j%2 == 1 || j%7 == 3 {
							d, want, wk = mk(sb), rb, kb
						}
						chk(i, fmt.Sprintf("short-lived object %d", j), d, want, wk.ref.PK)
						d = nil
						runtime.GC()
						runtime.GC()
					}
				}
				c.Outcome("ok")
			}
		}})
	ck.Finish = func(cov map[string]any, m map[string]*drv.DomStats) {
		all := map[string]bool{}
		var corpusOut, keyCorpusOut []string
		for _, d := range m {
			for k := range d.Sets["exits"] {
				all[k] = true
			}
			for k := range d.Sets["corpus"] {
				corpusOut = append(corpusOut, k)
			}
			delete(d.Sets, "corpus")
			for k := range d.Sets["keycorpus"] {
				keyCorpusOut = append(keyCorpusOut, k)
			}
			delete(d.Sets, "keycorpus")
		}
		missing := []string{}
		for _, e := range []string{"accept", "z", "r0", "hint"} {
			if !all[e] {
				missing = append(missing, e)
			}
		}
		cov["loop_exits_covered"] = keysOf(all)
		cov["loop_exits_missing"] = missing
		cov["loop_exit_ct0"] = "unreachable at level 5: |c*t0| <= 60*4096 < gamma2"
		if len(missing) > 0 {
			cov["exhaustive"] = false
			fmt.Println("warning: rejection-loop exits not covered in this run:", missing)
		}
		if p := os.Getenv("VERIF_KEYCORPUS_OUT"); p != "" {
			sort.Strings(keyCorpusOut)
			os.WriteFile(p, []byte(strings.Join(keyCorpusOut, "\n")+"\n"), 0o644)
		}
		if p := os.Getenv("VERIF_CORPUS_OUT"); p != "" {
			sort.Strings(corpusOut)
			os.WriteFile(p, []byte(strings.Join(corpusOut, "\n")+"\n"), 0o644)
		}
	}
	drv.Main(ck)
}

func keysOf(m map[string]bool) []string {
	var out []string
	for k := range m {
		out = append(out, k)
	}
	sort.Strings(out)
	return out
}

func eq32(a, b []int32) bool {
	if len(a) != len(b) {
		return false
	}
	for i := range a {
		if a[i] != b[i] {
			return false
		}
	}
	return true
}

// eqRef compares library coefficients (any representative) with reference coefficients mod q.
func eqRef(a [256]int32, r *refdil.Poly) bool {
	for i := range a {
		if refdil.Mod(int64(a[i])) != refdil.Mod(r[i]) {
			return false
		}
	}
	return true
}

func expandAEntry(rho []byte, i, j int) refdil.Poly { return refdil.ExpandAEntry(rho, i, j) }
