//go:build !no_dil_sample_vec

package main

import (
	"crypto/sha256"
	"fmt"

	"github.com/theQRL/go-qrllib/dilithium"
	"verifmc/drv"
	"verifmc/refdil"
)

func init() {
	optDomains = append(optDomains, &drv.Domain{Name: "expandmask-vector", Size: 3 * 400, Chunk: 50, Desc: "the vector-level mask sampler for every rejection-loop counter kappa = 0..399 (3 seeds): polynomial i equals ExpandMask(rho'', 7*kappa + i) (the 16-bit nonce crosses multiples of 256 many times)",
		Run: func(c *drv.Ctx, lo, hi int64) {
			for i := lo; i < hi; i++ {
				c.At(i)
				kappa := uint16(i % 400)
				s64 := sha256.Sum256([]byte(fmt.Sprintf("verif-c07-mask-%d-%d", i/400, c.Seed)))
				var seed64 [64]byte
				copy(seed64[:], s64[:])
				copy(seed64[32:], s64[:])
				seed64[50] ^= 0x5A
				y := dilithium.VerifPolyVecLUniformGamma1(seed64, kappa)
				c.Eval(1)
				c.Nontrivial(1)
				for k := 0; k < refdil.L; k++ {
					em := refdil.ExpandMask(seed64[:], uint16(refdil.L)*kappa+uint16(k))
					if !eqRef(y[k], &em) {
						c.Fail(i, "expandmask-vector", map[string]any{"kappa": kappa, "polynomial": k, "nonce": int(refdil.L)*int(kappa) + k})
						break
					}
				}
				c.Outcome("ok")
			}
		}})
}
