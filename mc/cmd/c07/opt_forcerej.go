//go:build !no_dil_forcerej

package main

import (
	"bytes"
	"encoding/hex"
	"fmt"

	"github.com/theQRL/go-qrllib/dilithium"
	"verifmc/dilscope"
	"verifmc/drv"
	"verifmc/refdil"
)

// forcedKs: every rejection count up to 80 and the counts at which the 16-bit mask nonce 7*kappa+i crosses byte boundaries
func forcedKs() []int {
	var ks []int
	for k := 0; k <= 80; k++ {
		ks = append(ks, k)
	}
	return append(ks, 100, 127, 128, 145, 146, 147, 255, 256, 257, 300, 511, 512, 1000)
}

func init() {
	ks := forcedKs()
	optDomains = append(optDomains, &drv.Domain{Name: "forced-rejections", Size: int64(len(ks) * 4), Chunk: 4,
		Desc: "deviation from the default answer of the signer's first rejection test: the z-norm test is made to answer 'reject' for the first k iterations (k = 0..80 and the counts around which the 16-bit mask nonce crosses 256 / 1024 / 2048 / 7000), 2 seeds x 2 messages; the signature must be byte-equal to the specification's signature produced at iteration k + (its natural path) — runs of rejections far longer than any searched input takes",
		Run: func(c *drv.Ctx, lo, hi int64) {
			for i := lo; i < hi; i++ {
				c.At(i)
				k := ks[i/4]
				seed := dilscope.Seed(int(i%2), 0)
				msg := []byte(fmt.Sprintf("verif-c07-forced-%d", (i/2)%2))
				kk := getKeys(seed)
				r := kk.ref.Sign(append([]byte(nil), msg...), refdil.Skip{ForceReject: k})
				dilithium.VerifForceReject = k
				var sig [dilithium.CryptoBytes]uint8
				var err error
				out := drv.Call(func() { sig, err = kk.lib.Sign(msg) })
				left := dilithium.VerifForceReject
				dilithium.VerifForceReject = 0
				c.Eval(1)
				c.Nontrivial(1)
				c.Max("longest_rejection_run", int64(len(r.Path)))
				if out != "ok" || err != nil || left != 0 || !bytes.Equal(sig[:], r.Sig) {
					d := 0
					for ; d < len(r.Sig) && r.Sig[d] == sig[d]; d++ {
					}
					c.Fail(i, "signature-differs-from-specification-after-forced-rejections", map[string]any{"forced_rejections": k, "seed": hex.EncodeToString(seed[:]), "message": drv.Hex(msg),
						"iterations_in_specification": len(r.Path), "first_differing_byte": d, "err": fmt.Sprint(out, " ", err), "forced_rejections_not_consumed": left})
				}
				if k < 80 {
					c.Outcome("short-run")
				} else {
					c.Outcome("long-run")
				}
			}
		}})
}
