//go:build !no_dil_sample_g1

package main

import (
	"crypto/sha256"
	"encoding/hex"
	"fmt"

	"github.com/theQRL/go-qrllib/dilithium"
	"verifmc/drv"
	"verifmc/refdil"
)

func init() {
	optDomains = append(optDomains, &drv.Domain{Name: "expandmask-poly", Size: 2000, Chunk: 50, Desc: "polyUniformGamma1 on 2000 (seed, nonce) pairs vs ExpandMask",
		Run: func(c *drv.Ctx, lo, hi int64) {
			for i := lo; i < hi; i++ {
				c.At(i)
				s64 := sha256.Sum256([]byte(fmt.Sprintf("verif-c07-sampler-%d-%d", i, c.Seed)))
				var seed64 [64]byte
				copy(seed64[:], s64[:])
				copy(seed64[32:], s64[:])
				seed64[40] ^= byte(i)
				nonce := uint16(i*257 + i>>3)
				pg := dilithium.VerifPolyUniformGamma1(seed64, nonce)
				em := refdil.ExpandMask(seed64[:], nonce)
				c.Eval(1)
				c.Nontrivial(1)
				if !eqRef(pg, &em) {
					c.Fail(i, "polyuniformgamma1", map[string]any{"seed": hex.EncodeToString(seed64[:]), "nonce": nonce})
				}
				c.Outcome("ok")
			}
		}})
}
