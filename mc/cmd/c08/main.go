// C08 — engine E1 (see e1 / e1cases).
package main

import "verifmc/e1cases"

func main() { e1cases.Main("C08") }
