package main

import (
	"bytes"
	"encoding/hex"
	"fmt"
	"os"
	"os/exec"
	"strings"
	"time"

	"github.com/theQRL/go-qrllib/common"
	"github.com/theQRL/go-qrllib/dilithium"
	"github.com/theQRL/go-qrllib/xmss"
	"verifmc/drv"
)

func setGroup(b []byte, p, v int) {
	for k := 0; k < 12; k++ {
		bit := p*12 + k
		mask := byte(1) << (7 - uint(bit%8))
		if v>>(11-uint(k))&1 == 1 {
			b[bit/8] |= mask
		} else {
			b[bit/8] &^= mask
		}
	}
}

// tallChild: VERIF_C09_TALL="<ctor>:<height>:<hash>" — call the constructor; print REFUSED:<msg> if it panics, BUILT if it returns.
func tallChild(sel string) {
	var ctor, h, hf int
	fmt.Sscanf(strings.ReplaceAll(sel, ":", " "), "%d %d %d", &ctor, &h, &hf)
	var seed [48]byte
	for i := range seed {
		seed[i] = byte(i*3 + h)
	}
	out := drv.Call(func() {
		if ctor == 0 {
			xmss.NewXMSSFromSeed(seed, uint8(h), xmss.HashFunction(hf), common.SHA256_2X)
			return
		}
		d := xmss.NewQRLDescriptor(uint8(h), xmss.HashFunction(hf), common.XMSSSig, common.SHA256_2X).GetBytes()
		var es [51]byte
		copy(es[:3], d[:])
		copy(es[3:], seed[:])
		xmss.NewXMSSFromExtendedSeed(es)
	})
	if out == "ok" {
		fmt.Println("BUILT")
	} else {
		fmt.Println("REFUSED:" + strings.ReplaceAll(out, "\n", " "))
	}
}

func extraDomains(ck *drv.Check) {
	// (a) seeds made of one 12-bit group repeated: the wallets whose mnemonic is the shortest / longest / last-word phrase
	ck.Domains = append(ck.Domains, &drv.Domain{Name: "uniform-group-seeds", Size: 4096 + 257, Chunk: 64,
		Desc: "wallets whose seed is one 12-bit group v repeated (mnemonic = one word 32 times: all-3-letter-word phrases, all-8-letter-word phrases, the last list word ...): every v for Dilithium, every 16th v and 4095 for XMSS h=4 (the 51-byte form shifts the groups by the descriptor): the wallet rebuilt from its own mnemonic has the same pk / address / seed",
		Run: func(c *drv.Ctx, lo, hi int64) {
			for i := lo; i < hi; i++ {
				c.At(i)
				c.Eval(1)
				c.Nontrivial(1)
				if i < 4096 {
					var seed [48]byte
					for g := 0; g < 32; g++ {
						setGroup(seed[:], g, int(i))
					}
					d, err := dilithium.NewDilithiumFromSeed(seed)
					if err != nil {
						c.Fail(i, "dilithium-fromseed-error", nil)
						continue
					}
					var d2 *dilithium.Dilithium
					mn := d.GetMnemonic()
					o := drv.Call(func() {
						var e error
						if d2, e = dilithium.NewDilithiumFromMnemonic(mn); e != nil {
							panic(e.Error())
						}
					})
					if o != "ok" || d2.GetPK() != d.GetPK() || d2.GetSeed() != seed || d2.GetAddress() != d.GetAddress() {
						c.Fail(i, "dilithium-wallet-not-recoverable-from-its-own-mnemonic", map[string]any{"group_value": i, "seed": hex.EncodeToString(seed[:]), "word": strings.Split(mn, " ")[0], "observed": o})
					}
					c.Outcome("dilithium")
					continue
				}
				v := int(i-4096) * 16
				if v > 4095 {
					v = 4095
				}
				var seed [48]byte
				// the 51-byte extended seed = 3 descriptor bytes (2 words) + seed: make the 32 seed words equal to v
				var es [51]byte
				for g := 2; g < 34; g++ {
					setGroup(es[:], g, v)
				}
				copy(seed[:], es[3:])
				k := xmss.NewXMSSFromSeed(seed, 4, xmss.HashFunction(v%3), common.SHA256_2X)
				var k2 *xmss.XMSS
				mn := k.GetMnemonic()
				o := drv.Call(func() { k2 = xmss.NewXMSSFromExtendedSeed(mnemonicToES(mn)) })
				if o != "ok" || k2.GetPK() != k.GetPK() || k2.GetAddress() != k.GetAddress() || k2.GetSeed() != seed {
					c.Fail(i, "xmss-wallet-not-recoverable-from-its-own-mnemonic", map[string]any{"group_value": v, "seed": hex.EncodeToString(seed[:]), "mnemonic_tail": strings.Join(strings.Split(mn, " ")[30:], " "), "observed": o})
				}
				c.Outcome("xmss")
			}
		}})
	// (b) tall heights: the constructors must not REFUSE a supported height (building the tree is not waited for)
	var tall [][3]int
	for h := 14; h <= 30; h += 2 {
		tall = append(tall, [3]int{0, h, h / 2 % 3}, [3]int{1, h, (h/2 + 1) % 3})
	}
	ck.Domains = append(ck.Domains, &drv.Domain{Name: "tall-heights-not-refused", Size: int64(len(tall)), Chunk: 1,
		Desc: "NewXMSSFromSeed and NewXMSSFromExtendedSeed(descriptor || seed) for every height 14..30, each in a child process: the child may take arbitrarily long to build the tree (it is stopped after 3 s), but it must not exit with a refusal — one-sided, a slow machine can only make this domain miss, never alarm",
		Run: func(c *drv.Ctx, lo, hi int64) {
			self, _ := os.Executable()
			for i := lo; i < hi; i++ {
				c.At(i)
				t := tall[i]
				cmd := exec.Command(self)
				cmd.Env = append(os.Environ(), fmt.Sprintf("VERIF_C09_TALL=%d:%d:%d", t[0], t[1], t[2]))
				var ob bytes.Buffer
				cmd.Stdout = &ob
				if err := cmd.Start(); err != nil {
					c.Cap("cannot start a child process: " + err.Error())
					continue
				}
				done := make(chan struct{})
				go func() { cmd.Wait(); close(done) }()
				select {
				case <-done:
				case <-time.After(3 * time.Second):
					cmd.Process.Kill()
					<-done
				}
				c.Eval(1)
				c.Nontrivial(1)
				s := ob.String()
				if strings.HasPrefix(s, "REFUSED:") {
					c.Fail(i, "constructor-refuses-a-supported-height", map[string]any{"constructor": []string{"NewXMSSFromSeed", "NewXMSSFromExtendedSeed"}[t[0]], "height": t[1], "hash": t[2], "observed": strings.TrimSpace(s)})
					c.Outcome("refused")
				} else if strings.HasPrefix(s, "BUILT") {
					c.Outcome("built")
				} else {
					c.Outcome("building (stopped)")
				}
			}
		}})
}

// restoredContinuation: a wallet restored from its mnemonic and fast-forwarded to index a keeps signing exactly as the
// original that reached a by signing — not only the first signature after the jump, every one up to the last leaf.
func restoredContinuation(ck *drv.Check) {
	restoredContinuationH(ck, "restored-continuation", "", 4)
	restoredContinuationH(ck, "restored-continuation-h6", "t", 6)
}

func restoredContinuationH(ck *drv.Check, name, tier string, hh uint8) {
	ck.Domains = append(ck.Domains, &drv.Domain{Name: name, Tier: tier, Size: 3, Chunk: 1,
		Desc: "h = 4 (thorough also 6) x 3 hash functions (real hashes): the original signs every index 0..2^h-1; for EVERY a the wallet rebuilt from the mnemonic does SetIndex(a) and signs a..2^h-1: every signature byte-equal to the original's at that index and valid (a catch-up loop that leaves the traversal state slightly behind shows several signatures after the jump)",
		Run: func(c *drv.Ctx, lo, hi int64) {
			for i := lo; i < hi; i++ {
				c.At(i)
				h, hf := hh, int(i%3)
				var seed [48]byte
				for k := range seed {
					seed[k] = byte(k*11 + int(i) + int(hh))
				}
				orig := xmss.NewXMSSFromSeed(seed, h, xmss.HashFunction(hf), common.SHA256_2X)
				pk := orig.GetPK()
				mn := orig.GetMnemonic()
				n := 1 << h
				msg := []byte("restored continuation")
				sigs := make([][]byte, n)
				for j := 0; j < n; j++ {
					sigs[j], _ = orig.Sign(msg)
				}
				bad := false
				for a := 0; a < n && !bad; a++ {
					k2 := xmss.NewXMSSFromExtendedSeed(mnemonicToES(mn))
					if a > 0 {
						k2.SetIndex(uint32(a))
					}
					for j := a; j < n; j++ {
						s, err := k2.Sign(msg)
						c.Eval(1)
						c.Nontrivial(1)
						if err != nil || !bytes.Equal(s, sigs[j]) || !xmss.Verify(msg, s, pk) {
							c.Fail(i, "restored-wallet-diverges-from-the-original-after-setindex", map[string]any{"height": h, "hash": hf, "setindex_target": a, "diverges_at_index": j, "signatures_after_the_jump": j - a + 1, "valid": err == nil && xmss.Verify(msg, s, pk)})
							bad = true
							break
						}
					}
					c.Tick()
				}
				c.Outcome("equal")
			}
		}})
}
