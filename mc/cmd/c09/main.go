// C09 — a wallet is recoverable from every secret it exports.
// Engine E3 (+ E1's symbolic seam for larger heights): constructors x (h, hash) x seed alphabet,
// all descriptor nibbles that NewXMSSFromSeed can be given, scripted crypto/rand.Reader answers.
package main

import (
	"bytes"
	"crypto/rand"
	"encoding/hex"
	"errors"
	"fmt"
	"io"
	"os"
	"strings"

	"github.com/theQRL/go-qrllib/common"
	"github.com/theQRL/go-qrllib/dilithium"
	"github.com/theQRL/go-qrllib/misc"
	"github.com/theQRL/go-qrllib/xmss"
	"verifmc/drv"
	"verifmc/seeds"
)

type scripted struct {
	data  []byte
	chunk int
	errAt int // 1-based call number that fails; 0 = never
	calls int
	off   int
}

func (s *scripted) Read(p []byte) (int, error) {
	s.calls++
	if s.errAt != 0 && s.calls >= s.errAt {
		return 0, errors.New("scripted reader failure")
	}
	n := s.chunk
	if n > len(p) {
		n = len(p)
	}
	for i := 0; i < n; i++ {
		p[i] = s.data[(s.off+i)%len(s.data)]
	}
	s.off += n
	return n, nil
}

func xmssSame(c *drv.Ctx, i int64, how string, a, b *xmss.XMSS, signIdx []uint32) {
	fail := func(what string) {
		c.Fail(i, "xmss-rebuilt-key-differs:"+what+" via="+how, map[string]any{"height": a.GetHeight(), "extended_seed": hex.EncodeToString(func() []byte { e := a.GetExtendedSeed(); return e[:] }())})
	}
	if a.GetPK() != b.GetPK() {
		fail("public-key")
	}
	if a.GetAddress() != b.GetAddress() {
		fail("address")
	}
	if a.GetSeed() != b.GetSeed() || a.GetExtendedSeed() != b.GetExtendedSeed() || a.GetMnemonic() != b.GetMnemonic() || a.GetHexSeed() != b.GetHexSeed() {
		fail("exported-secrets")
	}
	if !bytes.Equal(a.VerifSnapshot(), b.VerifSnapshot()) {
		// full-state equality is C08's property; here it is a diagnostic (C09 speaks about keys, addresses, signatures)
		c.Count("diagnostic:internal_state_differs", 1)
	}
	for _, idx := range signIdx {
		ca, cb := a.VerifClone(), b.VerifClone()
		ca.SetIndex(idx)
		cb.SetIndex(idx)
		sa, ea := ca.Sign([]byte("c09 message"))
		sb, eb := cb.Sign([]byte("c09 message"))
		if ea != nil || eb != nil || !bytes.Equal(sa, sb) {
			fail(fmt.Sprintf("signature-at-index-%d", idx))
		}
		if !xmss.VerifSymbolic && !xmss.Verify([]byte("c09 message"), sb, a.GetPK()) {
			fail(fmt.Sprintf("signature-at-index-%d-does-not-verify", idx))
		}
	}
}

func rebuildAll(c *drv.Ctx, i int64, k *xmss.XMSS, signIdx []uint32) {
	defer func() {
		// a USED original (it has signed at index 0) against a wallet restored later and fast-forwarded to index 1
		es := k.GetExtendedSeed()
		if _, err := k.Sign([]byte("first use of the original")); err != nil {
			return
		}
		s1, e1 := k.Sign([]byte("c09 message"))
		r := xmss.NewXMSSFromExtendedSeed(es)
		r.SetIndex(1)
		s2, e2 := r.Sign([]byte("c09 message"))
		if e1 != nil || e2 != nil || !bytes.Equal(s1, s2) {
			c.Fail(i, "xmss-rebuilt-key-differs:signature-of-used-original-vs-restored-wallet", map[string]any{"height": k.GetHeight()})
		}
	}()
	k1 := xmss.NewXMSSFromExtendedSeed(k.GetExtendedSeed())
	xmssSame(c, i, "extended-seed", k, k1, signIdx)
	k2 := xmss.NewXMSSFromExtendedSeed(misc.MnemonicToExtendedSeedBin(k.GetMnemonic()))
	xmssSame(c, i, "mnemonic", k, k2, signIdx)
	hs := k.GetHexSeed()
	if !strings.HasPrefix(hs, "0x") {
		c.Fail(i, "xmss-hexseed-has-no-0x-prefix", map[string]any{"hexseed": hs})
	}
	raw, err := hex.DecodeString(strings.TrimPrefix(hs, "0x"))
	if err != nil || len(raw) != 51 {
		c.Fail(i, "xmss-hexseed-not-51-bytes-of-hex", map[string]any{"hexseed": hs})
		return
	}
	var es [51]byte
	copy(es[:], raw)
	k3 := xmss.NewXMSSFromExtendedSeed(es)
	xmssSame(c, i, "hexseed", k, k3, signIdx)
}

func mnemonicToES(mn string) [51]byte { return misc.MnemonicToExtendedSeedBin(mn) }

func main() {
	if s := os.Getenv("VERIF_C09_TALL"); s != "" {
		tallChild(s)
		return
	}
	ck := &drv.Check{Property: "C09", Level: "model_checking",
		Rule: "bounded exhaustive enumeration: XMSS constructors x (height, hash) x seed alphabet (real hashes h=4,6,8; symbolic Merkle mode every even h up to 16 / 22), rebuilt via extended seed, mnemonic and hex seed: same public key, address, exported secrets, full internal state and signatures at indices {0,1,last}; " +
			"all 48 (hash x address-format nibble) descriptors at h=4; Dilithium seed alphabet x {FromSeed, FromHexSeed, FromMnemonic}; crypto/rand.Reader scripted over chunkings {1,7,48,100} x contents x {no error, error at call 1, error at call 2} for New() and NewXMSSFromHeight. " +
			"non-trivial = every enumerated (constructor, parameters, seed) combination is distinct",
		Assumptions: []string{"seed contents from a fixed alphabet (zeros, FF, pattern, VERIF_SEED-derived); heights above 8 use the symbolic seam (node identities instead of hashes)"}}
	type xcfg struct {
		h, hf, seed int
		sym         bool
	}
	var xq, xt []xcfg
	for hf := 0; hf < 3; hf++ {
		for s := 0; s < 4; s++ {
			xq = append(xq, xcfg{4, hf, s, false})
		}
		xq = append(xq, xcfg{6, hf, hf + 1, false})
		xt = append(xt, xcfg{8, hf, hf, false}, xcfg{6, hf, 5 + hf, false})
		xt = append(xt, xcfg{10, hf, 3, false})
	}
	for h := 4; h <= 16; h += 2 {
		for s := 0; s < 3; s++ {
			xq = append(xq, xcfg{h, s % 3, s, true})
		}
	}
	for h := 18; h <= 22; h += 2 {
		xt = append(xt, xcfg{h, 1, 2, true})
	}
	xd := func(name, tier string, cs []xcfg) {
		ck.Domains = append(ck.Domains, &drv.Domain{Name: name, Tier: tier, Size: int64(len(cs)), Chunk: 1, Desc: "XMSS keys rebuilt from extended seed / mnemonic / hex seed",
			Run: func(c *drv.Ctx, lo, hi int64) {
				for i := lo; i < hi; i++ {
					c.At(i)
					g := cs[i]
					xmss.VerifSymbolic = g.sym
					k := xmss.NewXMSSFromSeed(seeds.Seed48(g.seed, c.Seed), uint8(g.h), xmss.HashFunction(g.hf), common.SHA256_2X)
					last := uint32(1)<<uint(g.h) - 1
					idx := []uint32{0, 1, last}
					if g.h > 12 {
						idx = []uint32{0, 1, 1000}
					}
					if o := drv.Call(func() { rebuildAll(c, i, k, idx) }); o != "ok" {
						c.Fail(i, "xmss-rebuild-refused-or-faulted", map[string]any{"height": g.h, "hash": g.hf, "symbolic": g.sym, "observed": o})
					}
					xmss.VerifSymbolic = false
					c.Eval(3)
					c.Nontrivial(3)
					c.Outcome(fmt.Sprintf("h=%d sym=%v", g.h, g.sym))
					c.Sample(map[string]any{"height": g.h, "hash": g.hf, "seed_kind": g.seed, "symbolic": g.sym, "mnemonic_prefix": strings.Join(strings.Split(k.GetMnemonic(), " ")[:4], " ")})
				}
			}})
	}
	xd("xmss-rebuild-q", "q", xq)
	xd("xmss-rebuild-t", "t", xt)
	ck.Domains = append(ck.Domains, &drv.Domain{Name: "xmss-descriptor-nibbles", Size: 3 * 16, Chunk: 2, Desc: "h=4 keys for every (hash 0..2) x (address-format nibble 0..15) passed to NewXMSSFromSeed: the descriptor survives the extended seed, mnemonic and hex seed",
		Run: func(c *drv.Ctx, lo, hi int64) {
			for i := lo; i < hi; i++ {
				c.At(i)
				hf, af := int(i%3), int(i/3)
				k := xmss.NewXMSSFromSeed(seeds.Seed48(2, c.Seed), 4, xmss.HashFunction(hf), common.AddrFormatType(af))
				es := k.GetExtendedSeed()
				if es[0] != byte(hf) || es[1] != byte(af<<4|2) || es[2] != 0 {
					c.Fail(i, "xmss-extended-seed-descriptor", map[string]any{"hash": hf, "addrfmt": af, "observed": hex.EncodeToString(es[:3])})
				}
				k1 := xmss.NewXMSSFromExtendedSeed(es)
				if k1.GetPK() != k.GetPK() || k1.GetExtendedSeed() != es || k1.GetHeight() != 4 {
					c.Fail(i, "xmss-rebuilt-key-differs:descriptor-nibbles", map[string]any{"hash": hf, "addrfmt": af})
				}
				k2 := xmss.NewXMSSFromExtendedSeed(misc.MnemonicToExtendedSeedBin(k.GetMnemonic()))
				if k2.GetPK() != k.GetPK() {
					c.Fail(i, "xmss-rebuilt-key-differs:descriptor-nibbles-mnemonic", map[string]any{"hash": hf, "addrfmt": af})
				}
				c.Eval(2)
				c.Nontrivial(1)
				c.Outcome("ok")
			}
		}})
	// histories: other library calls between creating a wallet and recovering it must not matter
	interf := []string{"none", "verify-custom-w4-same-height", "verify-custom-w256-same-height", "key-other-height", "key-other-hash", "verify-other-key", "mnemonic-decode-other", "dilithium-sign-verify", "failed-recovery-attempt", "sign-and-advance-original", "export-other-wallets-secrets"}
	ck.Domains = append(ck.Domains, &drv.Domain{Name: "recovery-histories", Size: int64(len(interf)*len(interf)) * 3, Chunk: int64(len(interf)),
		Desc: "h=4 wallet A created, then every ordered PAIR of interfering operations (custom-w verification at the same height, keys of other height / hash, other verifications, mnemonic decoding, Dilithium use, a failed recovery attempt, signing with A), then A recovered via extended seed, mnemonic and hex seed: same public key, state and signatures; 3 hash functions",
		Run: func(c *drv.Ctx, lo, hi int64) {
			ni := int64(len(interf))
			for i := lo; i < hi; i++ {
				c.At(i)
				hf := int(i / (ni * ni))
				seq := []string{interf[i%ni], interf[i/ni%ni]}
				seed := seeds.Seed48(3+hf, c.Seed)
				a := xmss.NewXMSSFromSeed(seed, 4, xmss.HashFunction(hf), common.SHA256_2X)
				pk0, es0, mn0 := a.GetPK(), a.GetExtendedSeed(), a.GetMnemonic()
				sigA, _ := a.VerifClone().Sign([]byte("c09 message"))
				for _, op := range seq {
					drv.Call(func() {
						switch op {
						case "verify-custom-w4-same-height":
							xmss.VerifyWithCustomWOTSParamW([]byte("m"), make([]byte, 4+32+133*32+4*32), pk0, 4)
						case "verify-custom-w256-same-height":
							xmss.VerifyWithCustomWOTSParamW([]byte("m"), make([]byte, 4+32+34*32+4*32), pk0, 256)
						case "key-other-height":
							xmss.NewXMSSFromSeed(seeds.Seed48(2, c.Seed), 6, xmss.HashFunction(hf), common.SHA256_2X)
						case "key-other-hash":
							xmss.NewXMSSFromSeed(seed, 4, xmss.HashFunction((hf+1)%3), common.SHA256_2X)
						case "verify-other-key":
							k := xmss.NewXMSSFromSeed(seeds.Seed48(1, c.Seed), 4, xmss.HashFunction((hf+2)%3), common.SHA256_2X)
							sg, _ := k.Sign([]byte("x"))
							xmss.Verify([]byte("x"), sg, k.GetPK())
						case "mnemonic-decode-other":
							misc.MnemonicToExtendedSeedBin(misc.ExtendedSeedBinToMnemonic([51]byte{1, 3, 0, 9, 9}))
						case "dilithium-sign-verify":
							d, _ := dilithium.NewDilithiumFromSeed(seed)
							sg, _ := d.Sign([]byte("y"))
							pk := d.GetPK()
							dilithium.Verify([]byte("y"), sg, &pk)
						case "failed-recovery-attempt":
							misc.MnemonicToExtendedSeedBin(mn0 + " zzz")
						case "sign-and-advance-original":
							a.Sign([]byte("advance"))
						case "export-other-wallets-secrets":
							o := xmss.NewXMSSFromSeed(seeds.Seed48(1, c.Seed), 4, xmss.HashFunction(hf), common.SHA256_2X)
							_, _, _ = o.GetMnemonic(), o.GetHexSeed(), o.GetExtendedSeed()
							d, _ := dilithium.NewDilithiumFromSeed(seeds.Seed48(2, c.Seed))
							_, _ = d.GetMnemonic(), d.GetHexSeed()
						}
					})
				}
				o := drv.Call(func() {
					for how, k := range map[string]*xmss.XMSS{
						"extended-seed": xmss.NewXMSSFromExtendedSeed(es0),
						"mnemonic":      xmss.NewXMSSFromExtendedSeed(misc.MnemonicToExtendedSeedBin(mn0)),
					} {
						sg, err := k.Sign([]byte("c09 message"))
						if k.GetPK() != pk0 || k.GetExtendedSeed() != es0 || k.GetMnemonic() != mn0 || err != nil || !bytes.Equal(sg, sigA) || !xmss.Verify([]byte("c09 message"), sg, pk0) {
							c.Fail(i, "recovery-after-history-differs via="+how, map[string]any{"history": seq, "hash": hf, "pk_equal": k.GetPK() == pk0, "signature_equal": bytes.Equal(sg, sigA)})
						}
					}
				})
				if o != "ok" {
					c.Fail(i, "recovery-after-history-refused-or-faulted", map[string]any{"history": seq, "hash": hf, "observed": o})
				}
				c.Eval(2)
				if seq[0] != "none" || seq[1] != "none" {
					c.Nontrivial(1)
				}
				c.Outcome("ok")
				if i == 12 {
					c.Sample(map[string]any{"history": seq, "hash": hf})
				}
			}
		}})
	ck.Domains = append(ck.Domains, &drv.Domain{Name: "dilithium-rebuild", Size: 12, Chunk: 1, Desc: "Dilithium keys for 12 seeds rebuilt via NewDilithiumFromSeed / FromHexSeed(hex without 0x) / FromMnemonic: same pk, sk, address, seed, mnemonic, signature",
		Run: func(c *drv.Ctx, lo, hi int64) {
			for i := lo; i < hi; i++ {
				c.At(i)
				seed := seeds.Seed48(int(i), c.Seed)
				d, err := dilithium.NewDilithiumFromSeed(seed)
				if err != nil {
					c.Fail(i, "dilithium-fromseed-error", nil)
					continue
				}
				hs := d.GetHexSeed()
				if !strings.HasPrefix(hs, "0x") || hs[2:] != hex.EncodeToString(seed[:]) {
					c.Fail(i, "dilithium-hexseed-is-not-0x-plus-seed", map[string]any{"observed": hs})
				}
				msg := []byte("c09 dilithium message")
				// the original is a USED wallet: it has signed and sealed other messages before
				d.Sign([]byte("earlier message one"))
				d.Seal([]byte("earlier message two, longer ................................"))
				s0, _ := d.Sign(msg)
				mnHeld, hexHeld := d.GetMnemonic(), d.GetHexSeed()
				// exporting another wallet's secrets in between must not disturb the strings already handed out
				if od, err := dilithium.NewDilithiumFromSeed(seeds.Seed48(int(i)+20, c.Seed)); err == nil {
					_, _ = od.GetMnemonic(), od.GetHexSeed()
				}
				if mnHeld != d.GetMnemonic() || hexHeld != hs {
					c.Fail(i, "exported-secret-string-changed-after-later-export", map[string]any{"seed": hex.EncodeToString(seed[:])})
				}
				var others []*dilithium.Dilithium
				var names []string
				o := drv.Call(func() {
					d1, e1 := dilithium.NewDilithiumFromHexSeed(strings.TrimPrefix(hs, "0x"))
					d2, e2 := dilithium.NewDilithiumFromMnemonic(mnHeld)
					d3, e3 := dilithium.NewDilithiumFromSeed(d.GetSeed())
					if e1 != nil || e2 != nil || e3 != nil {
						panic("constructor error")
					}
					others, names = []*dilithium.Dilithium{d1, d2, d3}, []string{"hexseed", "mnemonic", "seed"}
				})
				if o != "ok" {
					c.Fail(i, "dilithium-rebuild-refused", map[string]any{"observed": o, "seed": hex.EncodeToString(seed[:])})
					continue
				}
				for n, x := range others {
					s1, _ := x.Sign(msg)
					if x.GetPK() != d.GetPK() || x.GetSK() != d.GetSK() || x.GetAddress() != d.GetAddress() || x.GetSeed() != seed || x.GetMnemonic() != d.GetMnemonic() || x.GetHexSeed() != hs || s1 != s0 {
						c.Fail(i, "dilithium-rebuilt-key-differs via="+names[n], map[string]any{"seed": hex.EncodeToString(seed[:])})
					}
				}
				c.Eval(3)
				c.Nontrivial(3)
				c.Outcome("ok")
				c.Sample(map[string]any{"seed": hex.EncodeToString(seed[:]), "mnemonic_prefix": strings.Join(strings.Split(d.GetMnemonic(), " ")[:4], " ")})
			}
		}})
	chunks := []int{1, 7, 48, 100}
	ck.Domains = append(ck.Domains, &drv.Domain{Name: "scripted-randomness", Size: int64(len(chunks)) * 3 * 3 * 2, Chunk: 3, Desc: "crypto/rand.Reader replaced by a scripted reader: chunk sizes {1,7,48,100} x contents {counter, FF, derived} x {no error, error at call 1, error at call 2} x {dilithium.New, xmss.NewXMSSFromHeight(4,SHAKE_128)}",
		Run: func(c *drv.Ctx, lo, hi int64) {
			saved := rand.Reader
			defer func() { rand.Reader = saved }()
			for i := lo; i < hi; i++ {
				c.At(i)
				ch := chunks[i%4]
				content, errAt, which := int(i/4%3), int(i/12%3), int(i/36)
				var data []byte
				switch content {
				case 0:
					data = make([]byte, 251)
					for k := range data {
						data[k] = byte(k + 1)
					}
				case 1:
					data = bytes.Repeat([]byte{0xFF}, 64)
				default:
					data = seeds.Bytes(97, "rand", c.Seed)
				}
				sr := &scripted{data: data, chunk: ch, errAt: errAt}
				rand.Reader = io.Reader(sr)
				want := make([]byte, 48)
				for k := range want {
					want[k] = data[k%len(data)]
				}
				what := fmt.Sprintf("chunk=%d content=%d errAt=%d ctor=%d", ch, content, errAt, which)
				// will the error hit before 48 bytes are delivered?
				needCalls := (48 + ch - 1) / ch
				expectErr := errAt != 0 && errAt <= needCalls
				var gotSeed [48]byte
				var refused bool
				var pkEq bool
				o := drv.Call(func() {
					if which == 0 {
						d, err := dilithium.New()
						if err != nil || d == nil {
							refused = true
							if d != nil {
								panic("verif: key returned together with an error")
							}
							return
						}
						gotSeed = d.GetSeed()
						rand.Reader = saved
						d2, _ := dilithium.NewDilithiumFromSeed(gotSeed)
						pkEq = d2.GetPK() == d.GetPK() && d2.GetSK() == d.GetSK()
					} else {
						k := xmss.NewXMSSFromHeight(4, xmss.SHAKE_128)
						gotSeed = k.GetSeed()
						rand.Reader = saved
						k2 := xmss.NewXMSSFromSeed(gotSeed, 4, xmss.SHAKE_128, common.SHA256_2X)
						pkEq = k2.GetPK() == k.GetPK() && bytes.Equal(k2.VerifSnapshot(), k.VerifSnapshot())
						k3 := xmss.NewXMSSFromExtendedSeed(k.GetExtendedSeed())
						pkEq = pkEq && k3.GetPK() == k.GetPK()
					}
				})
				rand.Reader = saved
				if strings.HasPrefix(o, "panic-string:") && !strings.Contains(o, "verif:") {
					refused = true
				} else if o != "ok" {
					c.Fail(i, "fresh-randomness:constructor-faulted", map[string]any{"case": what, "observed": o})
					continue
				}
				c.Eval(1)
				c.Nontrivial(1)
				c.Outcome(fmt.Sprintf("refused=%v", refused))
				switch {
				case expectErr && !refused:
					c.Fail(i, "fresh-randomness:reader-error-ignored", map[string]any{"case": what, "stored_seed": hex.EncodeToString(gotSeed[:])})
				case !expectErr && refused:
					c.Fail(i, "fresh-randomness:refused-without-reader-error", map[string]any{"case": what, "observed": o})
				case !expectErr:
					if !bytes.Equal(gotSeed[:], want) {
						c.Fail(i, "fresh-randomness:stored-seed-is-not-the-random-bytes", map[string]any{"case": what, "expected": hex.EncodeToString(want), "observed": hex.EncodeToString(gotSeed[:])})
					}
					if !pkEq {
						c.Fail(i, "fresh-randomness:stored-seed-does-not-regenerate-the-key", map[string]any{"case": what})
					}
				}
				if i == 2 {
					c.Sample(map[string]any{"case": what, "refused": refused, "stored_seed": hex.EncodeToString(gotSeed[:])})
				}
			}
		}})
	extraDomains(ck)
	restoredContinuation(ck)
	drv.Main(ck)
}
