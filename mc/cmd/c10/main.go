// C10 — mnemonic encoding is a bijection and decoding is strict.
// Engine E3: every 3-byte block (2^24, thorough) through the length-generic codec, every 12-bit
// value at every word position of both public forms, every single malformation at every position.
package main

import (
	"bytes"
	"fmt"
	"regexp"
	"strings"

	"github.com/theQRL/go-qrllib/misc"
	"github.com/theQRL/go-qrllib/qrl"
	"verifmc/drv"
	"verifmc/refcodec"
)

var index map[string]int
var words []string

func initIdx() {
	if index != nil {
		return
	}
	index = map[string]int{}
	words = append([]string(nil), qrl.WordList[:]...) // private copy: the oracle must not follow in-place changes of the global table
	for i, w := range words {
		if _, dup := index[w]; !dup {
			index[w] = i
		}
	}
}

// listUnchanged: the library's global word table still equals the copy taken before the first library call.
func listUnchanged(c *drv.Ctx, i int64, when string) {
	for k, w := range qrl.WordList {
		if w != words[k] {
			c.Fail(i, "global-word-list-modified-at-run-time", map[string]any{"when": when, "index": k, "expected": words[k], "observed": w})
			return
		}
	}
}

func background(n, kind int) []byte {
	b := make([]byte, n)
	for i := range b {
		switch kind {
		case 1:
			b[i] = 0xFF
		case 2:
			b[i] = 0xA5
		}
	}
	return b
}

// set the p-th 12-bit group (big-endian bit string) of b to v
func setGroup(b []byte, p, v int) {
	for k := 0; k < 12; k++ {
		bit := p*12 + k
		mask := byte(1) << (7 - uint(bit%8))
		if v>>(11-uint(k))&1 == 1 {
			b[bit/8] |= mask
		} else {
			b[bit/8] &^= mask
		}
	}
}

func enc(b []byte) (s string, out string) {
	out = drv.Call(func() {
		switch len(b) {
		case 48:
			var a [48]byte
			copy(a[:], b)
			s = misc.SeedBinToMnemonic(a)
		case 51:
			var a [51]byte
			copy(a[:], b)
			s = misc.ExtendedSeedBinToMnemonic(a)
		default:
			s = misc.VerifBinToMnemonic(b)
		}
	})
	return
}

func dec(p string, n int) (b []byte, out string) {
	out = drv.Call(func() {
		switch n {
		case 48:
			a := misc.MnemonicToSeedBin(p)
			b = a[:]
		case 51:
			a := misc.MnemonicToExtendedSeedBin(p)
			b = a[:]
		default:
			b = misc.VerifMnemonicToBin(p)
		}
	})
	return
}

func checkBlock(c *drv.Ctx, i int64, blk []byte) {
	c.Eval(1)
	s, out := enc(blk)
	if out != "ok" {
		c.Fail(i, "encode-panic", map[string]any{"bytes": drv.Hex(blk), "observed": out})
		return
	}
	want := refcodec.Encode(words, blk)
	if s != want {
		c.Fail(i, "encode-differs-from-reference", map[string]any{"bytes": drv.Hex(blk), "expected": want, "observed": s})
		return
	}
	back, out := dec(s, len(blk))
	if out != "ok" || !bytes.Equal(back, blk) {
		c.Fail(i, "decode-encode-roundtrip", map[string]any{"bytes": drv.Hex(blk), "phrase": s, "observed": fmt.Sprint(out, " ", drv.Hex(back))})
	}
}

func main() {
	ck := &drv.Check{Property: "C10", Level: "model_checking",
		Rule: "bounded exhaustive enumeration: 4096 list entries; every 3-byte block (thorough: all 2^24; quick: every 12-bit value of either word x 16 values of the other) through the length-generic codec; " +
			"every 12-bit value x every word position x 3 backgrounds through both public forms (48 B / 51 B; quick: full value range on background A5, 128-value alphabet on 00/FF); every malformation kind at every position of valid phrases; word counts 0..40. " +
			"non-trivial = round-trip case on a distinct input, or a malformed phrase that differs from a valid one in exactly one token/separator",
		Assumptions: []string{"block independence (word k depends only on bytes floor(3k/2), +1) lets 2^24 blocks x all positions stand for all 2^384/2^408 inputs; checked on 3 backgrounds, not proved"}}
	ck.Domains = append(ck.Domains, &drv.Domain{Name: "wordlist", Size: 4096, Desc: "each list entry is [a-z]+ and is the first entry with that spelling (duplicate-free)",
		Run: func(c *drv.Ctx, lo, hi int64) {
			initIdx()
			re := regexp.MustCompile(`^[a-z]+$`)
			for i := lo; i < hi; i++ {
				c.At(i)
				c.Eval(1)
				w := words[i]
				if !re.MatchString(w) {
					c.Fail(i, "wordlist-entry-not-lowercase-word", map[string]any{"index": i, "word": w})
				}
				if index[w] != int(i) {
					c.Fail(i, "wordlist-duplicate", map[string]any{"index": i, "word": w, "first": index[w]})
				}
				if i > 0 && words[i-1] >= w {
					c.Count("unsorted", 1)
				}
				c.Nontrivial(1)
				c.Outcome("ok")
				if i == 0 || i == 4095 {
					c.Sample(map[string]any{"index": i, "word": w})
				}
			}
		}})
	ck.Domains = append(ck.Domains, &drv.Domain{Name: "block24-axes", Tier: "q", Size: 2 * 4096 * 16, Desc: "3-byte blocks: every 12-bit value of one word x 16-value alphabet of the other, both ways",
		Run: func(c *drv.Ctx, lo, hi int64) {
			initIdx()
			alpha := []int{0, 1, 2, 15, 16, 255, 256, 0x555, 0xAAA, 0x7FF, 0x800, 0xF00, 0xFF0, 0xFFE, 0xFFF, 0x123}
			for i := lo; i < hi; i++ {
				c.At(i)
				v, a, which := int(i&4095), alpha[i>>12&15], i>>16
				w0, w1 := v, a
				if which == 1 {
					w0, w1 = a, v
				}
				blk := []byte{byte(w0 >> 4), byte(w0<<4) | byte(w1>>8), byte(w1)}
				checkBlock(c, i, blk)
				c.Nontrivial(1)
				c.Outcome("roundtrip")
				if i == 0x1234 {
					s, _ := enc(blk)
					c.Sample(map[string]any{"bytes": drv.Hex(blk), "phrase": s})
				}
			}
		}})
	ck.Domains = append(ck.Domains, &drv.Domain{Name: "block24-all", Tier: "t", Size: 1 << 24, Chunk: 1 << 14, Desc: "every 3-byte block 0..2^24-1 through the length-generic codec",
		Run: func(c *drv.Ctx, lo, hi int64) {
			initIdx()
			for i := lo; i < hi; i++ {
				c.At(i)
				blk := []byte{byte(i >> 16), byte(i >> 8), byte(i)}
				checkBlock(c, i, blk)
				c.Nontrivial(1)
				if i == 0xABCDEF {
					s, _ := enc(blk)
					c.Sample(map[string]any{"bytes": drv.Hex(blk), "phrase": s})
				}
			}
			c.Outcome("roundtrip")
		}})
	// public API, every position x every value x 3 backgrounds
	ck.Domains = append(ck.Domains, &drv.Domain{Name: "api-positions", Size: (32 + 34) * 4096 * 3, Chunk: 4096, Desc: "48-byte and 51-byte forms: 12-bit group p set to v over backgrounds 00/FF/A5, for every p and v",
		Run: func(c *drv.Ctx, lo, hi int64) {
			initIdx()
			for i := lo; i < hi; i++ {
				c.At(i)
				v := int(i & 4095)
				r := i >> 12
				bg := int(r % 3)
				p := int(r / 3)
				if c.Tier == "quick" && bg != 2 && v%64 != 0 && v%64 != 63 {
					continue // quick: backgrounds 00/FF only with a 128-value alphabet; A5 with every value
				}
				n, nw := 48, 32
				if p >= 32 {
					p -= 32
					n, nw = 51, 34
				}
				b := background(n, bg)
				setGroup(b, p, v)
				b0 := append([]byte{}, b...)
				c.Eval(1)
				s, out := enc(b)
				if out != "ok" {
					c.Fail(i, "api-encode-panic", map[string]any{"bytes": drv.Hex(b0), "observed": out})
					continue
				}
				ws := strings.Split(s, " ")
				if len(ws) != nw || ws[p] != words[v] || s != refcodec.Encode(words, b0) {
					c.Fail(i, "api-encode-differs-from-reference", map[string]any{"bytes": drv.Hex(b0), "position": p, "value": v, "expected": refcodec.Encode(words, b0), "observed": s})
					continue
				}
				back, out := dec(s, n)
				if out != "ok" || !bytes.Equal(back, b0) {
					c.Fail(i, "api-roundtrip", map[string]any{"bytes": drv.Hex(b0), "phrase": s, "observed": fmt.Sprint(out, " ", drv.Hex(back))})
					continue
				}
				// enc(dec(p)) == p
				s2, _ := enc(back)
				if s2 != s {
					c.Fail(i, "api-phrase-roundtrip", map[string]any{"phrase": s, "observed": s2})
				}
				// the other form must refuse this phrase (wrong number of words)
				if v%256 == 0 {
					if _, out := dec(s, 99-n); !strings.HasPrefix(out, "panic-string:") {
						c.Fail(i, "wrong-length-accepted", map[string]any{"phrase": s, "decoder_bytes": 99 - n, "observed": out})
					}
				}
				c.Nontrivial(1)
				c.Outcome(fmt.Sprintf("roundtrip-%d", n))
				if i == 5000 {
					c.Sample(map[string]any{"bytes": drv.Hex(b0), "phrase": s})
				}
			}
		}})
	// malformed phrases
	kinds := []string{"unknown-word", "capitalised", "allcaps", "trailing-space", "leading-space", "double-space-after", "tab-separator-after",
		"newline-separator-after", "nbsp-separator-after", "empty-word", "word-plus-tab", "word-plus-newline", "dropped", "duplicated", "comma-after", "mixed-case", "word-plus-nul", "word-plus-letter", "prefix-of-word"}
	nk := int64(len(kinds))
	ck.Domains = append(ck.Domains, &drv.Domain{Name: "malformed", Size: 2 * 3 * 34 * nk, Desc: "valid phrase (48/51-byte form x 3 backgrounds) with ONE malformation of each kind at every word position: must be refused",
		Run: func(c *drv.Ctx, lo, hi int64) {
			initIdx()
			for i := lo; i < hi; i++ {
				c.At(i)
				k := int(i % nk)
				r := i / nk
				p := int(r % 34)
				r /= 34
				bg := int(r % 3)
				form := int(r / 3)
				n, nw := 48, 32
				if form == 1 {
					n, nw = 51, 34
				}
				if p >= nw {
					continue
				}
				b := background(n, bg)
				for g := 0; g < nw; g++ {
					setGroup(b, g, (g*331+bg*17+5)&4095)
				}
				s, _ := enc(b)
				ws := strings.Split(s, " ")
				w := ws[p]
				sep := func(ch string) string { // replace the separator after word p (or before, for the last word)
					if p+1 < nw {
						return strings.Join(ws[:p+1], " ") + ch + strings.Join(ws[p+1:], " ")
					}
					return strings.Join(ws[:p], " ") + ch + ws[p]
				}
				var m string
				mod := func(nwrd string) string {
					x := append([]string{}, ws...)
					x[p] = nwrd
					return strings.Join(x, " ")
				}
				switch kinds[k] {
				case "unknown-word":
					m = mod(w + "zz")
				case "capitalised":
					m = mod(strings.ToUpper(w[:1]) + w[1:])
				case "allcaps":
					m = mod(strings.ToUpper(w))
				case "mixed-case":
					m = mod(w[:len(w)-1] + strings.ToUpper(w[len(w)-1:]))
				case "trailing-space":
					m = s + " "
					if p != 0 {
						m = mod(w + " ")
					}
				case "leading-space":
					m = " " + s
					if p != 0 {
						m = mod(" " + w)
					}
				case "double-space-after":
					m = sep("  ")
				case "tab-separator-after":
					m = sep("\t")
				case "newline-separator-after":
					m = sep("\n")
				case "nbsp-separator-after":
					m = sep(" ")
				case "comma-after":
					m = sep(", ")
				case "empty-word":
					m = mod("")
				case "word-plus-tab":
					m = mod(w + "\t")
				case "word-plus-newline":
					m = mod(w + "\n")
				case "word-plus-nul":
					m = mod(w + "\x00")
				case "word-plus-letter":
					m = mod(w + "z")
				case "prefix-of-word":
					m = mod(w[:len(w)-1])
				case "dropped":
					x := append(append([]string{}, ws[:p]...), ws[p+1:]...)
					m = strings.Join(x, " ")
				case "duplicated":
					x := append(append(append([]string{}, ws[:p+1]...), w), ws[p+1:]...)
					m = strings.Join(x, " ")
				}
				c.Eval(1)
				if _, err := refcodec.Decode(index, m); err == nil {
					// the malformation produced another well-formed phrase of even length (dropped/duplicated never do: odd count)
					c.Count("malformation-yielded-wellformed", 1)
				}
				if _, err := refcodec.Decode(index, m); err == nil {
					continue // e.g. a word minus its last letter can be another list word: then the phrase is simply another valid phrase
				}
				got, out := dec(m, n)
				if strings.HasPrefix(out, "panic-string:") {
					// history: the SAME malformed phrase presented again must be refused again (a memoised lookup must not turn a miss into a hit)
					got, out = dec(m, n)
					if !strings.HasPrefix(out, "panic-string:") {
						c.Fail(i, "malformed-accepted-on-second-presentation:"+kinds[k], map[string]any{"phrase": m, "kind": kinds[k], "position": p, "observed": fmt.Sprint(out, " ", drv.Hex(got))})
					}
				}
				if !strings.HasPrefix(out, "panic-string:") {
					c.Fail(i, "malformed-accepted:"+kinds[k], map[string]any{"phrase": m, "kind": kinds[k], "position": p, "form_bytes": n, "observed": fmt.Sprint(out, " ", drv.Hex(got)), "expected": "refusal (explicit string panic)"})
				}
				c.Nontrivial(1)
				c.Outcome(out)
				if i%16 == 0 {
					listUnchanged(c, i, "after a refused decode")
				}
				if i == 7 {
					c.Sample(map[string]any{"kind": kinds[k], "position": p, "phrase": m, "outcome": out})
				}
			}
		}})
	// phrases made of one word repeated: the shortest and the longest phrases there are, every value at every position at once
	ck.Domains = append(ck.Domains, &drv.Domain{Name: "uniform-phrases", Size: 4096 * 2, Chunk: 256, Desc: "both forms with EVERY 12-bit group equal to v, for every v (the all-3-letter-word phrases are the shortest valid phrases, the all-8-letter ones the longest): encode == reference, decode returns the bytes, re-encode returns the phrase",
		Run: func(c *drv.Ctx, lo, hi int64) {
			initIdx()
			for i := lo; i < hi; i++ {
				c.At(i)
				v := int(i & 4095)
				n, nw := 48, 32
				if i >= 4096 {
					n, nw = 51, 34
				}
				b := make([]byte, n)
				for g := 0; g < nw; g++ {
					setGroup(b, g, v)
				}
				checkBlock(c, i, b)
				c.Nontrivial(1)
				c.Max("longest_phrase_bytes", int64(nw*len(words[v])+nw-1))
				c.Outcome(fmt.Sprintf("wordlen=%d", len(words[v])))
			}
		}})
	// unknown tokens assembled from list words
	joiners := []string{",", ";", ":", ".", "-", "_", "/", "|", "+", "\x00", "\t", "\n", "\r", "\u00a0", "\u3000", ""}
	ck.Domains = append(ck.Domains, &drv.Domain{Name: "compound-tokens", Size: 4096 * int64(len(joiners)) * 4, Chunk: 1024,
		Desc: "one token of a valid phrase (first / last position) replaced by a token built from list words: w+j+next(w), next(w)+j+w, w+j, j+w for every list word w and 16 joiners (punctuation, control characters, non-ASCII spaces, nothing): refused unless the token is itself a list word (a lookup by substring search in a delimited index accepts some of these)",
		Run: func(c *drv.Ctx, lo, hi int64) {
			initIdx()
			nj := int64(len(joiners))
			for i := lo; i < hi; i++ {
				c.At(i)
				shape := int(i % 4)
				j := joiners[i/4%nj]
				v := int(i / 4 / nj)
				w, nx := words[v], words[(v+1)%4096]
				var tok string
				switch shape {
				case 0:
					tok = w + j + nx
				case 1:
					tok = nx + j + w
				case 2:
					tok = w + j
				case 3:
					tok = j + w
				}
				n, nw, pos := 48, 32, 0
				if v%2 == 1 {
					n, nw = 51, 34
				}
				if v%4 >= 2 {
					pos = nw - 1
				}
				b := background(n, 2)
				s, _ := enc(b)
				ws := strings.Split(s, " ")
				ws[pos] = tok
				m := strings.Join(ws, " ")
				c.Eval(1)
				if _, err := refcodec.Decode(index, m); err == nil {
					c.Count("token-is-a-list-word", 1)
					continue
				}
				got, out := dec(m, n)
				if !strings.HasPrefix(out, "panic-string:") {
					c.Fail(i, "compound-token-accepted", map[string]any{"token": tok, "position": pos, "form_bytes": n, "observed": fmt.Sprint(out, " ", drv.Hex(got)), "expected": "refusal (explicit string panic)"})
				}
				c.Nontrivial(1)
				c.Outcome(out)
			}
		}})
	ck.Domains = append(ck.Domains, &drv.Domain{Name: "word-counts", Size: 41 * 2, Chunk: 1, Desc: "phrases of 0..40 valid words against both decoders: accepted only with 32 resp. 34 words",
		Run: func(c *drv.Ctx, lo, hi int64) {
			initIdx()
			for i := lo; i < hi; i++ {
				c.At(i)
				cnt := int(i % 41)
				n := []int{48, 51}[i/41]
				var ws []string
				for g := 0; g < cnt; g++ {
					ws = append(ws, words[(g*577+11)&4095])
				}
				m := strings.Join(ws, " ")
				c.Eval(1)
				got, out := dec(m, n)
				wantOK := cnt*3/2 == n && cnt%2 == 0
				if wantOK {
					exp, _ := refcodec.Decode(index, m)
					if out != "ok" || !bytes.Equal(got, exp) {
						c.Fail(i, "count-valid-refused", map[string]any{"words": cnt, "observed": out})
					}
				} else if !strings.HasPrefix(out, "panic-string:") {
					c.Fail(i, "count-accepted", map[string]any{"words": cnt, "decoder_bytes": n, "observed": fmt.Sprint(out, " ", drv.Hex(got))})
				}
				c.Nontrivial(1)
				c.Outcome(out)
				if cnt == 33 {
					c.Sample(map[string]any{"words": cnt, "decoder_bytes": n, "outcome": out})
				}
			}
		}})
	// histories: results must not alias internal state or depend on earlier calls
	ck.Domains = append(ck.Domains, &drv.Domain{Name: "histories", Size: 12 * 12 * 2, Chunk: 12, Desc: "every ordered pair of 12 inputs (48- and 51-byte forms): enc(a); enc(b); [dec(enc(a))]: the FIRST phrase is still the reference encoding of a after the second call (no aliasing of a reused buffer), both decode back",
		Run: func(c *drv.Ctx, lo, hi int64) {
			initIdx()
			mk := func(k int) []byte {
				n := 48
				if k >= 6 {
					n = 51
				}
				b := background(n, k%3)
				for g := 0; g < n*8/12; g++ {
					setGroup(b, g, (g*(131+k*7)+k*977)&4095)
				}
				return b
			}
			for i := lo; i < hi; i++ {
				c.At(i)
				a, b, withDec := mk(int(i%12)), mk(int(i/12%12)), i/144 == 1
				sa, _ := enc(a)
				if withDec {
					dec(sa, len(a))
				}
				sb, _ := enc(b)
				c.Eval(1)
				c.Nontrivial(1)
				if sa != refcodec.Encode(words, a) || sb != refcodec.Encode(words, b) {
					c.Fail(i, "history:earlier-result-changed-by-later-call", map[string]any{"a": drv.Hex(a), "b": drv.Hex(b), "first_phrase_now": sa, "expected": refcodec.Encode(words, a)})
					continue
				}
				da, oa := dec(sa, len(a))
				db, ob := dec(sb, len(b))
				if oa != "ok" || ob != "ok" || !bytes.Equal(da, a) || !bytes.Equal(db, b) {
					c.Fail(i, "history:decode-after-two-encodes", map[string]any{"a": drv.Hex(a), "b": drv.Hex(b)})
				}
				c.Outcome("ok")
				if i == 13 {
					c.Sample(map[string]any{"a": drv.Hex(a), "b": drv.Hex(b)})
				}
			}
		}})
	drv.Main(ck)
}
