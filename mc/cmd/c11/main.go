// C11 — addresses and descriptors are derived and validated as specified.
// Engine E3: full descriptor domain (2^16), full field-tuple domain, every single-bit flip of
// legacy addresses; oracles are the formulas of the property computed with direct sha3/sha256 calls.
package main

import (
	"bytes"
	"crypto/sha256"
	"fmt"
	"strings"

	"github.com/theQRL/go-qrllib/common"
	"github.com/theQRL/go-qrllib/dilithium"
	"github.com/theQRL/go-qrllib/xmss"
	"golang.org/x/crypto/sha3"
	"verifmc/drv"
)

func shake256(n int, in []byte) []byte {
	out := make([]byte, n)
	sha3.ShakeSum256(out, in)
	return out
}

// body alphabet for the 64 pk bytes after the descriptor / the dilithium pk
func fill(n int, kind int, seed int64) []byte {
	b := make([]byte, n)
	switch kind {
	case 0:
	case 1:
		for i := range b {
			b[i] = 0xFF
		}
	case 2:
		for i := range b {
			b[i] = byte(i*7 + 3)
		}
	default:
		h := sha3.NewShake128()
		h.Write([]byte(fmt.Sprintf("verif-fill-%d-%d", kind, seed)))
		h.Read(b)
	}
	return b
}

var realXMSSPKs [][xmss.ExtendedPKSize]byte
var realDilPKs [][dilithium.CryptoPublicKeyBytes]byte

func initReal(seed int64) {
	if realXMSSPKs != nil {
		return
	}
	for hf := 0; hf < 3; hf++ {
		var s [48]byte
		copy(s[:], fill(48, 3+hf, seed))
		k := xmss.NewXMSSFromSeed(s, 4, xmss.HashFunction(hf), common.SHA256_2X)
		realXMSSPKs = append(realXMSSPKs, k.GetPK())
	}
	for i := 0; i < 2; i++ {
		var s [48]byte
		copy(s[:], fill(48, 7+i, seed))
		d, err := dilithium.NewDilithiumFromSeed(s)
		if err != nil {
			panic(err)
		}
		realDilPKs = append(realDilPKs, d.GetPK())
	}
}

func refLegacyValid(a [39]byte) bool {
	if a[1]>>4 != 0 {
		return false
	}
	h := sha256.Sum256(a[:35])
	return bytes.Equal(a[35:], h[28:])
}

func main() {
	ck := &drv.Check{
		Property: "C11",
		Level:    "model_checking",
		Rule: "bounded exhaustive enumeration: all 2^16 descriptor byte pairs x byte2 alphabet; all (hash,sigtype,height,addrfmt) field tuples; " +
			"address formula for all 2^16 descriptors x 4 body fills + real keys; all 312 single-bit flips and all byte0/byte1 values of derived legacy addresses. " +
			"non-trivial = case whose expected result is not the default reject (a derived address / a supported descriptor / a flip that keeps the checksum relation decidable)",
		Assumptions: []string{"x/crypto sha3 and crypto/sha256 are trusted (used by both the library and the oracle)",
			"validity of arbitrary (non-derived) addresses is asserted only as mutual exclusion of the two schemes, as the property states"},
	}
	// 1. descriptor decode: all (b0,b1) x b2 in {0,1,0xFF}
	ck.Domains = append(ck.Domains, &drv.Domain{Name: "desc-decode", Size: 65536 * 3, Desc: "NewQRLDescriptorFromBytes / Legacy..FromBytes on every (byte0,byte1) x byte2 in {00,01,FF}",
		Run: func(c *drv.Ctx, lo, hi int64) {
			for i := lo; i < hi; i++ {
				c.At(i)
				b0, b1 := byte(i>>8), byte(i)
				b2 := []byte{0, 1, 0xFF}[i>>16]
				for leg := 0; leg < 2; leg++ {
					var d *xmss.QRLDescriptor
					out := drv.Call(func() {
						if leg == 0 {
							d = xmss.NewQRLDescriptorFromBytes([]byte{b0, b1, b2})
						} else {
							d = xmss.LegacyQRLDescriptorFromBytes([]byte{b0, b1, b2})
						}
					})
					c.Eval(1)
					if out != "ok" {
						c.Fail(i, "desc-decode-panic", map[string]any{"bytes": drv.Hex([]byte{b0, b1, b2}), "observed": out})
						continue
					}
					got := fmt.Sprintf("hash=%d sig=%d h=%d fmt=%d", d.GetHashFunction(), d.GetSignatureType(), d.GetHeight(), d.GetAddrFormatType())
					want := fmt.Sprintf("hash=%d sig=%d h=%d fmt=%d", b0&15, b0>>4, int(b1&15)*2, b1>>4)
					if got != want {
						c.Fail(i, "desc-decode-fields", map[string]any{"bytes": drv.Hex([]byte{b0, b1, b2}), "expected": want, "observed": got, "legacy": leg})
					}
					enc := d.GetBytes()
					if enc[0] != b0 || enc[1] != b1 || enc[2] != 0 {
						c.Fail(i, "desc-reencode", map[string]any{"bytes": drv.Hex([]byte{b0, b1, b2}), "observed": drv.Hex(enc[:])})
					}
					if leg == 0 && i%7 == 0 {
						// the descriptor must not keep a live view of the caller's buffer
						buf := []byte{b0, b1, b2}
						d1 := xmss.NewQRLDescriptorFromBytes(buf)
						var epk [67]byte
						epk[0], epk[1] = b0, b1
						d2 := xmss.NewQRLDescriptorFromExtendedPK(&epk)
						buf[0], buf[1], epk[0], epk[1] = ^b0, ^b1, ^b0, ^b1
						e1, e2 := d1.GetBytes(), d2.GetBytes()
						if e1[0] != b0 || e1[1] != b1 || e2[0] != b0 || e2[1] != b1 || int(d1.GetHeight()) != int(b1&15)*2 {
							c.Fail(i, "descriptor-aliases-callers-buffer", map[string]any{"bytes": drv.Hex([]byte{b0, b1}), "after_overwrite_from_slice": drv.Hex(e1[:]), "after_overwrite_from_pk": drv.Hex(e2[:])})
						}
					}
				}
				if b0&15 <= 2 && b0>>4 == 0 && b1>>4 == 0 && b1&15 >= 2 {
					c.Nontrivial(1)
				}
				c.Outcome(fmt.Sprintf("sig=%d fmt0=%v", b0>>4, b1>>4 == 0))
				if i == 0x0102 {
					c.Sample(map[string]any{"bytes": "010200", "decoded": "hash=1 sig=0 h=4 fmt=0"})
				}
			}
		}})
	// 2. field tuples
	ck.Domains = append(ck.Domains, &drv.Domain{Name: "desc-fields", Size: 16 * 16 * 16 * 16, Desc: "NewQRLDescriptor(height even 0..30, hash 0..15, sigtype 0..15, addrfmt 0..15) -> GetBytes -> FromBytes",
		Run: func(c *drv.Ctx, lo, hi int64) {
			for i := lo; i < hi; i++ {
				c.At(i)
				hash, sig, hh, af := int(i&15), int(i>>4&15), int(i>>8&15)*2, int(i>>12&15)
				d := xmss.NewQRLDescriptor(uint8(hh), xmss.HashFunction(hash), common.SignatureType(sig), common.AddrFormatType(af))
				b := d.GetBytes()
				c.Eval(1)
				if b[0] != byte(sig<<4|hash) || b[1] != byte(af<<4|hh/2) || b[2] != 0 {
					c.Fail(i, "desc-encode", map[string]any{"fields": fmt.Sprint(hash, sig, hh, af), "observed": drv.Hex(b[:])})
				}
				d2 := xmss.NewQRLDescriptorFromBytes(b[:])
				if int(d2.GetHashFunction()) != hash || int(d2.GetSignatureType()) != sig || int(d2.GetHeight()) != hh || int(d2.GetAddrFormatType()) != af {
					c.Fail(i, "desc-roundtrip", map[string]any{"fields": fmt.Sprint(hash, sig, hh, af), "bytes": drv.Hex(b[:]),
						"observed": fmt.Sprint(d2.GetHashFunction(), d2.GetSignatureType(), d2.GetHeight(), d2.GetAddrFormatType())})
				}
				// via extended seed / extended pk constructors
				var es [51]byte
				copy(es[:], b[:])
				d3 := xmss.NewQRLDescriptorFromExtendedSeed(es)
				var epk [67]byte
				copy(epk[:], b[:])
				d4 := xmss.NewQRLDescriptorFromExtendedPK(&epk)
				d5 := xmss.LegacyQRLDescriptorFromExtendedPK(&epk)
				for k, dd := range []*xmss.QRLDescriptor{d3, d4, d5} {
					if dd.GetBytes() != b {
						c.Fail(i, "desc-roundtrip-ctor", map[string]any{"fields": fmt.Sprint(hash, sig, hh, af), "ctor": k})
					}
				}
				if hash <= 2 && sig == 0 && hh >= 4 && af == 0 {
					c.Nontrivial(1)
					c.Sample(map[string]any{"hash": hash, "height": hh, "bytes": drv.Hex(b[:])})
				}
				c.Outcome(fmt.Sprintf("supported=%v", hash <= 2 && sig == 0 && hh >= 4 && af == 0))
			}
		}})
	// 3. XMSS address formula on all descriptors x fills
	const nFill = 4
	ck.Domains = append(ck.Domains, &drv.Domain{Name: "xmss-addr", Size: 65536 * nFill, Desc: "GetXMSSAddressFromPK / IsValid* on pk = every (byte0,byte1) x 4 body fills",
		Run: func(c *drv.Ctx, lo, hi int64) {
			for i := lo; i < hi; i++ {
				c.At(i)
				b0, b1 := byte(i>>8), byte(i)
				var pk [67]byte
				pk[0], pk[1] = b0, b1
				copy(pk[3:], fill(64, int(i>>16), c.Seed))
				pk0 := pk
				var addr [20]byte
				out := drv.Call(func() { addr = xmss.GetXMSSAddressFromPK(pk) })
				c.Eval(1)
				if b1>>4 != 0 {
					if out != "panic-string:Address format type not supported" {
						c.Fail(i, "xmss-addr-unsupported-fmt", map[string]any{"pk": drv.Hex(pk[:]), "observed": out, "expected": "refusal: Address format type not supported"})
					}
					c.Outcome("refused-fmt")
					continue
				}
				if out != "ok" {
					c.Fail(i, "xmss-addr-panic", map[string]any{"pk": drv.Hex(pk[:]), "observed": out})
					continue
				}
				want := append([]byte{b0, b1, 0}, shake256(32, pk0[:])[15:]...)
				if !bytes.Equal(addr[:], want) {
					c.Fail(i, "xmss-addr-formula", map[string]any{"pk": drv.Hex(pk0[:]), "expected": drv.Hex(want), "observed": drv.Hex(addr[:])})
				}
				if pk != pk0 {
					c.Fail(i, "xmss-addr-mutated-input", nil)
				}
				vx, vd := xmss.IsValidXMSSAddress(addr), dilithium.IsValidDilithiumAddress(addr)
				if vx && vd {
					c.Fail(i, "addr-valid-for-both", map[string]any{"addr": drv.Hex(addr[:])})
				}
				if b0>>4 == 0 { // an XMSS public key
					c.Nontrivial(1)
					if !vx || vd {
						c.Fail(i, "xmss-addr-validity", map[string]any{"addr": drv.Hex(addr[:]), "IsValidXMSSAddress": vx, "IsValidDilithiumAddress": vd})
					}
					if i>>16 == 2 && b0 == 1 && b1 == 2 {
						c.Sample(map[string]any{"pk": drv.Hex(pk0[:]), "addr": drv.Hex(addr[:])})
					}
				}
				c.Outcome(fmt.Sprintf("vx=%v vd=%v", vx, vd))
			}
		}})
	// 3b. the reserved third descriptor byte of an externally supplied public key
	ck.Domains = append(ck.Domains, &drv.Domain{Name: "reserved-descriptor-byte", Size: 255 * 3 * 16 * 2, Chunk: 255,
		Desc: "pk[2] (the descriptor byte no parameter lives in) = 1..255 x 3 hash functions x 16 height nibbles x 2 body fills: GetXMSSAddressFromPK and GetLegacyXMSSAddressFromPK still give descriptor(b0,b1,00) || digest(pk as given), and the results pass their validators",
		Run: func(c *drv.Ctx, lo, hi int64) {
			for i := lo; i < hi; i++ {
				c.At(i)
				b2 := byte(i%255) + 1
				r := i / 255
				hf, hn, fl := byte(r%3), byte(r/3%16), int(r/48)
				var pk [67]byte
				pk[0], pk[1], pk[2] = hf, hn, b2
				copy(pk[3:], fill(64, 2+fl, c.Seed))
				pk0 := pk
				var addr [20]byte
				var la [39]byte
				out := drv.Call(func() { addr = xmss.GetXMSSAddressFromPK(pk) })
				out2 := drv.Call(func() { la = xmss.GetLegacyXMSSAddressFromPK(pk) })
				c.Eval(2)
				c.Nontrivial(2)
				want := append([]byte{hf, hn, 0}, shake256(32, pk0[:])[15:]...)
				h1 := sha256.Sum256(pk0[:])
				pre := append([]byte{hf, hn, 0}, h1[:]...)
				h2 := sha256.Sum256(pre)
				wantL := append(pre, h2[28:]...)
				if out != "ok" || !bytes.Equal(addr[:], want) || !xmss.IsValidXMSSAddress(addr) {
					c.Fail(i, "reserved-byte:xmss-addr-formula", map[string]any{"pk": drv.Hex(pk0[:]), "expected": drv.Hex(want), "observed": fmt.Sprint(out, " ", drv.Hex(addr[:]))})
				}
				if out2 != "ok" || !bytes.Equal(la[:], wantL) || !xmss.IsValidLegacyXMSSAddress(la) {
					c.Fail(i, "reserved-byte:legacy-derivation", map[string]any{"pk": drv.Hex(pk0[:]), "expected": drv.Hex(wantL), "observed": fmt.Sprint(out2, " ", drv.Hex(la[:]))})
				}
				if pk != pk0 {
					c.Fail(i, "reserved-byte:mutated-input", nil)
				}
				c.Outcome("ok")
			}
		}})
	// 3c. the address of a key object over its whole life, including after the last index and after refused calls
	ck.Domains = append(ck.Domains, &drv.Domain{Name: "address-over-key-life", Size: 3, Chunk: 1,
		Desc: "h=4 key objects x 3 hash functions: GetPK / GetAddress / GetLegacyAddress after construction, after every signature, after the last one, after a refused Sign on the exhausted key and after refused SetIndex calls: always the formula applied to the public key the object had at construction",
		Run: func(c *drv.Ctx, lo, hi int64) {
			for i := lo; i < hi; i++ {
				c.At(i)
				var sd [48]byte
				copy(sd[:], fill(48, 2+int(i), c.Seed))
				k := xmss.NewXMSSFromSeed(sd, 4, xmss.HashFunction(i), common.SHA256_2X)
				pk0 := k.GetPK()
				want := append([]byte{pk0[0], pk0[1], 0}, shake256(32, pk0[:])[15:]...)
				h1 := sha256.Sum256(pk0[:])
				pre := append([]byte{pk0[0], pk0[1], 0}, h1[:]...)
				h2 := sha256.Sum256(pre)
				wantL := append(pre, h2[28:]...)
				check := func(when string) bool {
					pk, a, la := k.GetPK(), k.GetAddress(), k.GetLegacyAddress()
					c.Eval(1)
					c.Nontrivial(1)
					if pk != pk0 || !bytes.Equal(a[:], want) || !bytes.Equal(la[:], wantL) {
						c.Fail(i, "address-changed-during-key-life", map[string]any{"when": when, "hash": i, "pk_unchanged": pk == pk0, "expected": drv.Hex(want), "observed": drv.Hex(a[:]), "legacy_equal": bytes.Equal(la[:], wantL)})
						return false
					}
					return true
				}
				ok := check("after construction")
				for j := 0; ok && j < 16; j++ {
					if _, err := k.Sign([]byte("life")); err != nil {
						c.Fail(i, "sign-failed", map[string]any{"index": j})
						ok = false
						break
					}
					ok = check(fmt.Sprintf("after signature %d", j))
				}
				if ok {
					drv.Call(func() { k.Sign([]byte("one too many")) })
					ok = check("after a refused Sign on the exhausted key")
				}
				if ok {
					drv.Call(func() { k.SetIndex(3) })
					drv.Call(func() { k.SetIndex(16) })
					drv.Call(func() { k.SetIndex(1 << 31) })
					drv.Call(func() { k.Sign([]byte("again")) })
					check("after refused SetIndex / Sign calls")
				}
				c.Outcome("stable")
			}
		}})
	// 4. real keys + dilithium
	ck.Domains = append(ck.Domains, &drv.Domain{Name: "real-keys", Size: 3 + 2 + 4, Chunk: 1, Desc: "addresses of real XMSS keys (3 hash functions), real Dilithium keys, Dilithium pk fills",
		Run: func(c *drv.Ctx, lo, hi int64) {
			initReal(c.Seed)
			for i := lo; i < hi; i++ {
				c.At(i)
				c.Eval(1)
				if i < 3 {
					pk := realXMSSPKs[i]
					addr := xmss.GetXMSSAddressFromPK(pk)
					want := append(append([]byte{}, pk[:3]...), shake256(32, pk[:])[15:]...)
					if !bytes.Equal(addr[:], want) || !xmss.IsValidXMSSAddress(addr) || dilithium.IsValidDilithiumAddress(addr) {
						c.Fail(i, "real-xmss-addr", map[string]any{"pk": drv.Hex(pk[:]), "expected": drv.Hex(want), "observed": drv.Hex(addr[:])})
					}
					c.Nontrivial(1)
					c.Sample(map[string]any{"pk": drv.Hex(pk[:]), "addr": drv.Hex(addr[:])})
					continue
				}
				var pk [dilithium.CryptoPublicKeyBytes]byte
				if i < 5 {
					pk = realDilPKs[i-3]
				} else {
					copy(pk[:], fill(len(pk), int(i-5), c.Seed))
				}
				pk0 := pk
				addr := dilithium.GetDilithiumAddressFromPK(pk)
				want := append([]byte{0x10}, shake256(32, pk0[:])[13:]...)
				if !bytes.Equal(addr[:], want) {
					c.Fail(i, "dil-addr-formula", map[string]any{"expected": drv.Hex(want), "observed": drv.Hex(addr[:])})
				}
				if !dilithium.IsValidDilithiumAddress(addr) || xmss.IsValidXMSSAddress(addr) {
					c.Fail(i, "dil-addr-validity", map[string]any{"addr": drv.Hex(addr[:])})
				}
				c.Nontrivial(1)
				c.Outcome("dil-ok")
			}
		}})
	// 5. validity exclusion on the whole descriptor domain (both validators, any tail)
	ck.Domains = append(ck.Domains, &drv.Domain{Name: "addr-exclusion", Size: 65536 * 2, Desc: "no 20-byte address (every byte0,byte1 x 2 tails) is valid for both schemes",
		Run: func(c *drv.Ctx, lo, hi int64) {
			for i := lo; i < hi; i++ {
				c.At(i)
				var a [20]byte
				a[0], a[1] = byte(i>>8), byte(i)
				copy(a[2:], fill(18, int(i>>16)+1, c.Seed))
				vx, vd := xmss.IsValidXMSSAddress(a), dilithium.IsValidDilithiumAddress(a)
				c.Eval(1)
				if vx && vd {
					c.Fail(i, "addr-valid-for-both", map[string]any{"addr": drv.Hex(a[:])})
				}
				if vx || vd {
					c.Nontrivial(1)
				}
				c.Outcome(fmt.Sprintf("vx=%v vd=%v", vx, vd))
			}
		}})
	// 6. legacy addresses: derived + every single-bit flip + every value of bytes 0,1,2
	// base pks: supported descriptors (3 hash x 14 heights) x 2 fills + 3 real keys
	type base struct{ pk [67]byte }
	mkBases := func(seed int64) []base {
		initReal(seed)
		var bs []base
		for hf := 0; hf < 3; hf++ {
			for h := 4; h <= 30; h += 2 {
				for f := 0; f < 2; f++ {
					var b base
					b.pk[0], b.pk[1] = byte(hf), byte(h/2)
					copy(b.pk[3:], fill(64, 2+f, seed))
					bs = append(bs, b)
				}
			}
		}
		for _, pk := range realXMSSPKs {
			bs = append(bs, base{pk})
		}
		return bs
	}
	nb := int64(3*14*2 + 3)
	perBase := int64(1 + 312 + 3*256)
	ck.Domains = append(ck.Domains, &drv.Domain{Name: "legacy", Size: nb * perBase, Desc: "GetLegacyXMSSAddressFromPK for 87 pks; IsValidLegacyXMSSAddress on the derived address, all 312 single-bit flips, all values of bytes 0..2",
		Run: func(c *drv.Ctx, lo, hi int64) {
			bs := mkBases(c.Seed)
			for i := lo; i < hi; i++ {
				c.At(i)
				b := bs[i/perBase]
				k := i % perBase
				a := xmss.GetLegacyXMSSAddressFromPK(b.pk)
				h1 := sha256.Sum256(b.pk[:])
				pre := append(append([]byte{}, b.pk[0], b.pk[1], 0), h1[:]...)
				h2 := sha256.Sum256(pre)
				want := append(pre, h2[28:]...)
				c.Eval(1)
				if !bytes.Equal(a[:], want) {
					c.Fail(i, "legacy-derivation", map[string]any{"pk": drv.Hex(b.pk[:]), "expected": drv.Hex(want), "observed": drv.Hex(a[:])})
					continue
				}
				m := a
				what := "derived"
				switch {
				case k == 0:
				case k <= 312:
					bit := k - 1
					m[bit/8] ^= 1 << (bit % 8)
					what = fmt.Sprintf("bitflip %d", bit)
				default:
					kk := k - 313
					m[kk/256] = byte(kk % 256)
					what = fmt.Sprintf("byte%d=%02x", kk/256, kk%256)
				}
				m0 := m
				var got bool
				out := drv.Call(func() { got = xmss.IsValidLegacyXMSSAddress(m) })
				exp := refLegacyValid(m0)
				if out != "ok" || got != exp {
					c.Fail(i, "legacy-validity", map[string]any{"address": drv.Hex(m0[:]), "deviation": what, "expected": exp, "observed": fmt.Sprint(out, " ", got)})
				}
				if k == 0 && !got {
					c.Fail(i, "legacy-derived-not-valid", map[string]any{"address": drv.Hex(m0[:])})
				}
				if exp {
					c.Nontrivial(1)
					if k == 0 && i/perBase == 0 {
						c.Sample(map[string]any{"pk": drv.Hex(b.pk[:]), "legacy_address": drv.Hex(a[:]), "valid": got})
					}
				}
				c.Outcome(fmt.Sprintf("valid=%v", got))
			}
		}})
	// 7. legacy validator on constants: checksum correct but format nibble != 0, for all 256 byte1 values with recomputed checksum
	ck.Domains = append(ck.Domains, &drv.Domain{Name: "legacy-fmt", Size: 65536, Desc: "39-byte addresses with a CORRECT checksum for every (byte0,byte1): valid iff format nibble is 0",
		Run: func(c *drv.Ctx, lo, hi int64) {
			for i := lo; i < hi; i++ {
				c.At(i)
				var a [39]byte
				a[0], a[1] = byte(i>>8), byte(i)
				copy(a[3:35], fill(32, 2, c.Seed))
				h := sha256.Sum256(a[:35])
				copy(a[35:], h[28:])
				got := xmss.IsValidLegacyXMSSAddress(a)
				exp := a[1]>>4 == 0
				c.Eval(1)
				if got != exp {
					c.Fail(i, "legacy-fmt", map[string]any{"address": drv.Hex(a[:]), "expected": exp, "observed": got})
				}
				if exp {
					c.Nontrivial(1)
				}
				c.Outcome(fmt.Sprintf("valid=%v", got))
			}
		}})
	// every single-bit flip of a public key, in sequence in one process: the address formula must hold for each
	// (an address that ignores part of the key, or a cache keyed on part of it, breaks this)
	ck.Domains = append(ck.Domains, &drv.Domain{Name: "pk-bitflips", Size: 2*int64(dilithium.CryptoPublicKeyBytes)*8 + 3*67*8, Chunk: 512,
		Desc: "address of the real key, then of the key with each single bit flipped (2 Dilithium keys x 20736 bits, 3 XMSS keys x 536 bits), alternating with the unflipped key: formula holds for every one",
		Run: func(c *drv.Ctx, lo, hi int64) {
			initReal(c.Seed)
			nd := int64(dilithium.CryptoPublicKeyBytes) * 8
			for i := lo; i < hi; i++ {
				c.At(i)
				c.Eval(1)
				c.Nontrivial(1)
				if i < 2*nd {
					pk := realDilPKs[i/nd]
					base := dilithium.GetDilithiumAddressFromPK(pk)
					bit := i % nd
					pk[bit/8] ^= 1 << uint(bit%8)
					addr := dilithium.GetDilithiumAddressFromPK(pk)
					want := append([]byte{0x10}, shake256(32, pk[:])[13:]...)
					if !bytes.Equal(addr[:], want) || addr == base {
						c.Fail(i, "dil-addr-formula-after-related-key", map[string]any{"flipped_bit": bit, "expected": drv.Hex(want), "observed": drv.Hex(addr[:])})
					}
				} else {
					k := (i - 2*nd) / (67 * 8)
					bit := (i - 2*nd) % (67 * 8)
					pk := realXMSSPKs[k]
					var base [20]byte
					drv.Call(func() { base = xmss.GetXMSSAddressFromPK(pk) })
					pk[bit/8] ^= 1 << uint(bit%8)
					pk0 := pk
					var addr [20]byte
					out := drv.Call(func() { addr = xmss.GetXMSSAddressFromPK(pk) })
					if pk0[1]>>4 != 0 {
						if out == "ok" {
							c.Fail(i, "xmss-addr-unsupported-fmt", map[string]any{"pk": drv.Hex(pk0[:])})
						}
						continue
					}
					want := append([]byte{pk0[0], pk0[1], 0}, shake256(32, pk0[:])[15:]...)
					if out != "ok" || !bytes.Equal(addr[:], want) || addr == base {
						c.Fail(i, "xmss-addr-formula-after-related-key", map[string]any{"flipped_bit": bit, "expected": drv.Hex(want), "observed": drv.Hex(addr[:])})
					}
				}
				c.Outcome("ok")
			}
		}})
	ck.Domains = append(ck.Domains, &drv.Domain{Name: "object-address-stability", Size: 3 * 4, Chunk: 1, Desc: "key objects (h=4, 3 hash functions, address-format nibble 0..3): GetAddress / GetLegacyAddress called three times give three times the same outcome (the formula for format 0, the same refusal otherwise)",
		Run: func(c *drv.Ctx, lo, hi int64) {
			for i := lo; i < hi; i++ {
				c.At(i)
				hf, af := int(i%3), int(i/3)
				var seed [48]byte
				copy(seed[:], fill(48, 5, c.Seed))
				k := xmss.NewXMSSFromSeed(seed, 4, xmss.HashFunction(hf), common.AddrFormatType(af))
				pk := k.GetPK()
				var outs []string
				for r := 0; r < 3; r++ {
					var a [20]byte
					var la [39]byte
					o1 := drv.Call(func() { a = k.GetAddress() })
					o2 := drv.Call(func() { la = k.GetLegacyAddress() })
					outs = append(outs, o1+" "+drv.Hex(a[:])+" | "+o2+" "+drv.Hex(la[:8]))
				}
				c.Eval(3)
				c.Nontrivial(1)
				c.Outcome(outs[0][:8])
				if outs[1] != outs[0] || outs[2] != outs[0] {
					c.Fail(i, "object-address-changes-between-calls", map[string]any{"hash": hf, "addrfmt": af, "outcomes": outs})
				}
				if af == 0 {
					want := append([]byte{pk[0], pk[1], 0}, shake256(32, pk[:])[15:]...)
					if !strings.Contains(outs[0], drv.Hex(want)) {
						c.Fail(i, "object-address-formula", map[string]any{"hash": hf, "expected": drv.Hex(want), "observed": outs[0]})
					}
				}
			}
		}})
	drv.Main(ck)
}
