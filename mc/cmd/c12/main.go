// C12 — Dilithium ring arithmetic is exact on its whole operating domain.
// Engine E3: full operand domains against int64 "mod q" definitions and schoolbook products.
package main

import (
	"fmt"

	"github.com/theQRL/go-qrllib/dilithium"
	"verifmc/drv"
)

const (
	Q      = 8380417
	D      = 13
	GAMMA2 = (Q - 1) / 32
	GAMMA1 = 1 << 19
	BETA   = 120
)

func mod(a int64) int64 { // positive representative
	r := a % Q
	if r < 0 {
		r += Q
	}
	return r
}

// centred representative in (-m/2, m/2]
func modpm(a, m int64) int64 {
	r := a % m
	if r < 0 {
		r += m
	}
	if r > m/2 {
		r -= m
	}
	return r
}

func specDecompose(a int64) (a1, a0 int64) {
	a0 = modpm(a, 2*GAMMA2)
	if a-a0 == Q-1 {
		return 0, a0 - 1
	}
	return (a - a0) / (2 * GAMMA2), a0
}

func specUseHint(a int64, h int) int64 {
	a1, a0 := specDecompose(a)
	if h == 0 {
		return a1
	}
	if a0 > 0 {
		return (a1 + 1) % 16
	}
	return (a1 + 15) % 16
}

func powmod(b, e int64) int64 {
	r := int64(1)
	b = mod(b)
	for ; e > 0; e >>= 1 {
		if e&1 == 1 {
			r = r * b % Q
		}
		b = b * b % Q
	}
	return r
}

func brv8(k int) int {
	r := 0
	for i := 0; i < 8; i++ {
		r |= (k >> uint(i) & 1) << uint(7-i)
	}
	return r
}

// optRegister is set by opt.go (compiled unless -tags noopt): registers the vector-level domains.
var optRegister func(qd func(name, desc, tier string, size, chunk int64, run func(c *drv.Ctx, lo, hi int64)))

func main() {
	ck := &drv.Check{Property: "C12", Level: "model_checking",
		Rule: "full operand-domain enumeration against int64 definitions: every residue for power2round/decompose/use-hint, every (a0,a1) of the hint domain, every int32 for reduce32/caddq, " +
			"all 2^32 low words x boundary high words and all high words x 16 low words for the Montgomery reduction, all 65536 monomial pairs x 36 coefficient pairs for the NTT product vs the schoolbook negacyclic product. " +
			"non-trivial = an operand inside the function's documented domain (every enumerated operand is distinct)",
		Assumptions: []string{"Montgomery: the 2^54 product space is covered by two complete axes (low word / high word) plus the decomposition mont(hi*2^32+lo) = hi + g(lo), an argument about straight-line code",
			"NTT: all polynomials follow from linearity over the enumerated basis x alphabet plus the measured absence of int32 overflow on extreme dense vectors"}}
	qd := func(name, desc, tier string, size, chunk int64, run func(c *drv.Ctx, lo, hi int64)) {
		ck.Domains = append(ck.Domains, &drv.Domain{Name: name, Desc: desc, Tier: tier, Size: size, Chunk: chunk, Run: run})
	}
	// output aliasing an input: the library calls these helpers in place (w1 = UseHint(w1, h), t1 = Power2Round(t1), z = z + y ...)
	type aop struct {
		op    string
		modes int
	}
	aops := []aop{{"add", 5}, {"sub", 5}, {"pointwise", 5}, {"p2r", 3}, {"decompose", 3}, {"usehint", 3}, {"makehint", 3}}
	qd("output-aliasing", "polyAdd / polySub / polyPointWiseMontgomery with c==a, c==b, a==b, c==a==b, and Power2Round / Decompose / UseHint / MakeHint with an output aliasing either input, on 6 structured operand pairs: the aliasing modes the library's own call sites use (add/sub c==a, pointwise c==b, p2r/decompose a1==a, usehint b==a) give what separate buffers give; the other modes are measured and only counted", "", int64(len(aops))*6, 6, func(c *drv.Ctx, lo, hi int64) {
		for i := lo; i < hi; i++ {
			c.At(i)
			o := aops[i/6]
			pat := int(i % 6)
			var a, b [dilithium.N]int32
			for k := range a {
				switch o.op {
				case "add", "sub":
					a[k] = int32((k*7919+pat*104729)%(2*Q-1)) - (Q - 1)
					b[k] = int32((k*15485863+pat*31)%(2*Q-1)) - (Q - 1)
				case "pointwise":
					a[k] = int32((k*7919+pat*104729)%(2*Q-1)) - (Q - 1)
					b[k] = int32((k*15485863+pat*31+1)%(2*Q-1)) - (Q - 1)
				case "p2r", "decompose":
					a[k] = int32((int64(k)*32749*int64(pat+1) + int64(pat)*4099) % Q)
					if k < 8 {
						a[k] = []int32{0, 1, Q - 1, 4096, 4097, (Q - 1) / 2, Q - 1 - 261888, 261888}[k]
					}
				case "usehint":
					a[k] = int32((int64(k)*65521*int64(pat+1) + int64(pat)) % Q)
					b[k] = int32((k + pat) & 1)
				case "makehint":
					a[k] = int32((k*2039+pat)%(2*261888+1)) - 261888 // a0 in [-gamma2, gamma2]
					b[k] = int32((k*7 + pat) % 16)               // a1 in 0..15
				}
			}
			for mode := 1; mode < o.modes; mode++ {
				aa, bb := a, b
				ea, eb := a, b
				if (o.op == "add" || o.op == "sub" || o.op == "pointwise") && mode >= 3 {
					eb = ea // a==b: expected = separate buffers holding equal values
				}
				e1, e2 := dilithium.VerifPolyAliased(o.op, 0, &ea, &eb)
				g1, g2 := dilithium.VerifPolyAliased(o.op, mode, &aa, &bb)
				c.Eval(1)
				c.Nontrivial(1)
				usedByLibrary := map[string]int{"add": 1, "sub": 1, "pointwise": 2, "p2r": 1, "decompose": 1, "usehint": 1}[o.op] == mode
				if (e1 != g1 || e2 != g2) && !usedByLibrary {
					// an aliasing mode no call site of the library uses: an operand combination the arithmetic cannot meet — counted, not a violation
					c.Count("diagnostic:aliasing-mode-unused-by-the-library-differs:"+o.op, 1)
					continue
				}
				if e1 != g1 || e2 != g2 {
					k := 0
					for ; k < dilithium.N && e1[k] == g1[k] && e2[k] == g2[k]; k++ {
					}
					c.Fail(i, "output-aliasing:"+o.op, map[string]any{"op": o.op, "aliasing_mode": mode, "operand_pattern": pat, "first_differing_coefficient": k,
						"modes": "binary ops: 1 c==a, 2 c==b, 3 a==b, 4 c==a==b; p2r/decompose: 1 a1==a, 2 a0==a; usehint: 1 b==a, 2 b==h; makehint: 1 h==a0, 2 h==a1"})
					break
				}
			}
			c.Outcome(o.op)
		}
	})
	qd("power2round", "all a in [0,q): a = a1*2^13 + a0 with -2^12 < a0 <= 2^12", "", Q, 1<<16, func(c *drv.Ctx, lo, hi int64) {
		c.At(lo)
		for a := lo; a < hi; a++ {
			a1, a0 := dilithium.VerifPower2Round(int32(a))
			e0 := modpm(a, 1<<D)
			e1 := (a - e0) >> D
			if int64(a1) != e1 || int64(a0) != e0 {
				c.Fail(a, "power2round", map[string]any{"a": a, "expected": fmt.Sprint(e1, e0), "observed": fmt.Sprint(a1, a0)})
				break
			}
		}
		c.Eval(hi - lo)
		c.Nontrivial(hi - lo)
		c.Outcome("ok")
		if lo == 0 {
			c.Sample(map[string]any{"a": 4097, "a1,a0": fmt.Sprint(dilithium.VerifPower2Round(4097))})
		}
	})
	qd("decompose", "all a in [0,q): a1,a0 per the specification incl. the a1=16->0 wrap", "", Q, 1<<16, func(c *drv.Ctx, lo, hi int64) {
		c.At(lo)
		for a := lo; a < hi; a++ {
			a1, a0 := dilithium.VerifDecompose(int32(a))
			e1, e0 := specDecompose(a)
			if int64(a1) != e1 || int64(a0) != e0 {
				c.Fail(a, "decompose", map[string]any{"a": a, "expected": fmt.Sprint(e1, e0), "observed": fmt.Sprint(a1, a0)})
				break
			}
			if e1 == 0 && e0 < 0 {
				c.Count("wrap_cases", 1)
			}
		}
		c.Eval(hi - lo)
		c.Nontrivial(hi - lo)
		c.Outcome("ok")
		if lo == 0 {
			c.Sample(map[string]any{"a": Q - 1, "a1,a0": fmt.Sprint(dilithium.VerifDecompose(Q - 1))})
		}
	})
	qd("usehint", "all a in [0,q) x hint in {0,1}", "", 2*Q, 1<<16, func(c *drv.Ctx, lo, hi int64) {
		c.At(lo)
		for i := lo; i < hi; i++ {
			a, h := i%Q, int(i/Q)
			got := dilithium.VerifUseHint(int32(a), h)
			if exp := specUseHint(a, h); int64(got) != exp {
				c.Fail(i, "usehint", map[string]any{"a": a, "hint": h, "expected": exp, "observed": got})
				break
			}
		}
		c.Eval(hi - lo)
		c.Nontrivial(hi - lo)
		c.Outcome("ok")
		if lo == 0 {
			c.Sample(map[string]any{"a": 1, "hint": 1, "result": dilithium.VerifUseHint(1, 1)})
		}
	})
	const A0R = 2*GAMMA2 - BETA - 2 // signer's domain: |a0| <= (gamma2-beta-1) + (gamma2-1)
	qd("makehint", "all (a0,a1), |a0| <= 2*gamma2-beta-2, a1 in [0,16): hint = [HighBits((a1*2*gamma2+a0) mod q) != a1]; and UseHint(r, hint) == a1", "", (2*A0R+1)*16, 1<<16, func(c *drv.Ctx, lo, hi int64) {
		c.At(lo)
		for i := lo; i < hi; i++ {
			a1 := i % 16
			a0 := i/16 - A0R
			r := mod(a1*2*GAMMA2 + a0)
			hb, _ := specDecompose(r)
			exp := uint(0)
			if hb != a1 {
				exp = 1
			}
			got := dilithium.VerifMakeHint(int32(a0), int32(a1))
			if got != exp {
				c.Fail(i, "makehint", map[string]any{"a0": a0, "a1": a1, "expected": exp, "observed": got})
				break
			}
			if exp == 1 {
				c.Count("hint_set", 1)
			}
			if rec := dilithium.VerifUseHint(int32(r), int(got)); int64(rec) != a1 {
				c.Fail(i, "usehint-does-not-recover-highbits", map[string]any{"a0": a0, "a1": a1, "r": r, "hint": got, "observed": rec})
				break
			}
		}
		c.Eval(hi - lo)
		c.Nontrivial(hi - lo)
		c.Outcome("ok")
		if lo == 0 {
			c.Sample(map[string]any{"a0": -GAMMA2, "a1": 0, "hint": dilithium.VerifMakeHint(-GAMMA2, 0)})
		}
	})
	const R32MAX = int64(1)<<31 - 1<<22 - 1
	qd("reduce32", "all int32 a <= 2^31-2^22-1: r == a (mod q), -6283009 <= r <= 6283008", "", R32MAX+(1<<31)+1, 1<<22, func(c *drv.Ctx, lo, hi int64) {
		c.At(lo)
		var mn, mx int64 = 1 << 40, -(1 << 40)
		for i := lo; i < hi; i++ {
			a := i - (1 << 31)
			r := int64(dilithium.VerifReduce32(int32(a)))
			if (r-a)%Q != 0 || r < -6283009 || r > 6283008 {
				c.Fail(i, "reduce32", map[string]any{"a": a, "observed": r, "expected": "r == a mod q and -6283009 <= r <= 6283008"})
				break
			}
			if r < mn {
				mn = r
			}
			if r > mx {
				mx = r
			}
		}
		c.Max("reduce32_max", mx)
		c.Max("reduce32_negmin", -mn)
		c.Eval(hi - lo)
		c.Nontrivial(hi - lo)
		c.Outcome("ok")
		if lo == 0 {
			c.Sample(map[string]any{"a": -2147483648, "r": dilithium.VerifReduce32(-2147483648)})
		}
	})
	qd("caddq", "all int32: a<0 -> a+q else a", "", 1<<32, 1<<22, func(c *drv.Ctx, lo, hi int64) {
		c.At(lo)
		for i := lo; i < hi; i++ {
			a := int32(i - (1 << 31))
			exp := a
			if a < 0 {
				exp = a + Q
			}
			if got := dilithium.VerifCAddQ(a); got != exp {
				c.Fail(i, "caddq", map[string]any{"a": a, "expected": exp, "observed": got})
				break
			}
		}
		c.Eval(hi - lo)
		c.Nontrivial((hi - lo))
		c.Outcome("ok")
		if lo == 0 {
			c.Sample(map[string]any{"a": -1, "r": dilithium.VerifCAddQ(-1)})
		}
	})
	bounds := []int32{0, 1, GAMMA1 - BETA, GAMMA2 - BETA, GAMMA2, (Q - 1) / 8, (Q-1)/8 + 1}
	const CN = 6283009 + 6283008 + 1
	qd("chknorm-values", "every coefficient value a in [-6283009, 6283008] at position 0 x 7 bounds: result == [|centred(a)| >= B] for B <= (q-1)/8, 1 above", "", CN*7, 1<<16, func(c *drv.Ctx, lo, hi int64) {
		c.At(lo)
		var p [256]int32
		for i := lo; i < hi; i++ {
			a := i%CN - 6283009
			B := bounds[i/CN]
			p[0] = int32(a)
			got := dilithium.VerifChkNorm(&p, B)
			ca := modpm(a, Q)
			if ca < 0 {
				ca = -ca
			}
			exp := 0
			if B > (Q-1)/8 || ca >= int64(B) {
				exp = 1
			}
			if got != exp {
				c.Fail(i, "chknorm", map[string]any{"a": a, "B": B, "expected": exp, "observed": got})
				break
			}
		}
		c.Eval(hi - lo)
		c.Nontrivial(hi - lo)
		c.Outcome("ok")
		if lo == 0 {
			c.Sample(map[string]any{"a": -(GAMMA1 - BETA), "B": GAMMA1 - BETA, "result": 1})
		}
	})
	qd("chknorm-positions", "boundary values (+-(B-1), +-B, +-(B+1), 0, extremes) at every position 0..255 x 7 bounds, others zero / others just below the bound", "", 256*7*9*2, 256, func(c *drv.Ctx, lo, hi int64) {
		for i := lo; i < hi; i++ {
			c.At(i)
			pos := int(i % 256)
			B := bounds[i/256%7]
			vi := int(i / 256 / 7 % 9)
			bg := int(i / 256 / 7 / 9)
			vals := []int64{int64(B) - 1, int64(B), int64(B) + 1, -int64(B) + 1, -int64(B), -int64(B) - 1, 0, 6283008, -6283009}
			var p [256]int32
			bgv := int32(0)
			if bg == 1 && B > 1 {
				bgv = B - 1
			}
			for k := range p {
				p[k] = bgv
				if k%2 == 1 {
					p[k] = -bgv
				}
			}
			p[pos] = int32(vals[vi])
			got := dilithium.VerifChkNorm(&p, B)
			exp := 0
			if B > (Q-1)/8 {
				exp = 1
			}
			for _, v := range p {
				cv := modpm(int64(v), Q)
				if cv < 0 {
					cv = -cv
				}
				if cv >= int64(B) {
					exp = 1
				}
			}
			c.Eval(1)
			c.Nontrivial(1)
			c.Outcome(fmt.Sprint(got))
			if got != exp {
				c.Fail(i, "chknorm-position", map[string]any{"position": pos, "value": vals[vi], "B": B, "background": bgv, "expected": exp, "observed": got})
			}
		}
	})
	// Montgomery: domain |a| <= 2^31*q. a = hi*2^32 + lo (lo unsigned).
	checkMont := func(c *drv.Ctx, i int64, a int64) bool {
		const lim = int64(1) << 31 * Q
		if a > lim || a < -lim {
			return true // outside the documented domain |a| <= 2^31*q
		}
		r := int64(dilithium.VerifMontgomeryReduce(a))
		// r*2^32 == a (mod q), |r| < q. At the single boundary point a = +2^31*q the result is exactly q
		// (upstream's documented bound is off by one there); no caller can produce that operand
		// (it needs |zeta| >= 2^32 * q / 2^31 / |coeff|), so only the congruence and |r| <= q are asserted at that point.
		if a == lim && r == Q {
			c.Count("boundary_point_a=2^31*q_gives_r=q", 1)
			return true
		}
		if (((r<<32)%Q-a%Q)%Q != 0) || r <= -Q || r >= Q {
			c.Fail(i, "montgomery", map[string]any{"a": a, "observed": r, "expected": "r*2^32 == a (mod q), -q < r < q"})
			return false
		}
		return true
	}
	his := []int64{-(Q / 2), -1, 0, 1, Q/2 - 1}
	for k := int64(1); k <= 14; k++ { // thorough: 28 more high words spread over the domain
		his = append(his, k*(Q/2)/15, -k*(Q/2)/15)
	}
	for k, hv := range his {
		hv := hv
		tier := "t"
		if hv == 0 || k == 0 || k == 4 {
			tier = ""
		}
		qd(fmt.Sprintf("montgomery-lo-hi=%d", hv), fmt.Sprintf("all 2^32 low words with high word %d", hv), tier, 1<<32, 1<<22, func(c *drv.Ctx, lo, hi int64) {
			c.At(lo)
			for i := lo; i < hi; i++ {
				if !checkMont(c, i, hv<<32+i) {
					break
				}
			}
			c.Eval(hi - lo)
			c.Nontrivial(hi - lo)
			c.Outcome("ok")
			if lo == 0 {
				c.Sample(map[string]any{"a": hv<<32 + 12345, "r": dilithium.VerifMontgomeryReduce(hv<<32 + 12345)})
			}
		})
	}
	lows := []int64{0, 1, 2, 0x7FFFFFFF, 0x80000000, 0x80000001, 0xFFFFFFFF, 0xFFFFFFFE, 0x55555555, 0xAAAAAAAA, 0x00010000, 0x0000FFFF, 58728449, 4236238847, 8380417, 0x7F7FFFFF}
	qd("montgomery-hi", "all high words in [-q/2, q/2) x 16 low-word patterns", "", Q*16, 1<<16, func(c *drv.Ctx, lo, hi int64) {
		c.At(lo)
		for i := lo; i < hi; i++ {
			hv := i/16 - Q/2
			if !checkMont(c, i, hv<<32+lows[i%16]) {
				break
			}
		}
		c.Eval(hi - lo)
		c.Nontrivial(hi - lo)
		c.Outcome("ok")
	})
	qd("montgomery-zeta-products", "all products zeta_k * b, k < 256, |b| < q (the NTT butterflies' operand set)", "t", 256*(2*Q-1), 1<<22, func(c *drv.Ctx, lo, hi int64) {
		c.At(lo)
		z := dilithium.VerifZetas()
		for i := lo; i < hi; i++ {
			k := i / (2*Q - 1)
			b := i%(2*Q-1) - (Q - 1)
			if !checkMont(c, i, int64(z[k])*b) {
				break
			}
		}
		c.Eval(hi - lo)
		c.Nontrivial(hi - lo)
		c.Outcome("ok")
	})
	qd("zetas", "zetas[k] == 2^32 * 1753^brv8(k) mod q (centred), k = 1..255", "", 255, 255, func(c *drv.Ctx, lo, hi int64) {
		z := dilithium.VerifZetas()
		for i := lo; i < hi; i++ {
			c.At(i)
			k := int(i) + 1
			exp := modpm(powmod(1753, int64(brv8(k)))*(int64(1)<<32%Q), Q)
			c.Eval(1)
			c.Nontrivial(1)
			if int64(z[k]) != exp {
				c.Fail(i, "zetas-entry", map[string]any{"k": k, "expected": exp, "observed": z[k]})
			}
			c.Outcome("ok")
			if k == 1 {
				c.Sample(map[string]any{"k": 1, "zeta": z[1]})
			}
		}
	})
	alphaT := []int64{2, -2, 3, (Q + 1) / 2, -(Q - 1) / 2, 1 << 13, GAMMA1, -GAMMA1, GAMMA2, 4190208, 8380416 / 3, 1753}
	qd("ntt-basis-products-wide", "all 65536 monomial pairs x 12x12 further coefficient values (2, 3, (q+1)/2, 2^13, gamma1, gamma2, ...)", "t", 65536*144, 4096, func(c *drv.Ctx, lo, hi int64) {
		for idx := lo; idx < hi; idx++ {
			c.At(idx)
			i, j := int(idx>>8&255), int(idx&255)
			ca, cb := alphaT[idx>>16%12], alphaT[idx>>16/12]
			var a, b, pr [256]int32
			a[i], b[j] = int32(ca), int32(cb)
			dilithium.VerifNTT(&a)
			dilithium.VerifNTT(&b)
			dilithium.VerifPointwise(&pr, &a, &b)
			dilithium.VerifInvNTTToMont(&pr)
			expC := mod(mod(ca) * mod(cb))
			pos := i + j
			if pos >= 256 {
				pos -= 256
				expC = mod(-expC)
			}
			for k := 0; k < 256; k++ {
				e := int64(0)
				if k == pos {
					e = expC
				}
				if mod(int64(pr[k])) != e {
					c.Fail(idx, "ntt-product", map[string]any{"i": i, "j": j, "ca": ca, "cb": cb})
					break
				}
			}
			c.Eval(1)
			c.Nontrivial(1)
		}
		c.Outcome("ok")
	})
	alpha := []int64{1, -1, Q - 1, -(Q - 1), (Q - 1) / 2, 1 << 22}
	qd("ntt-basis-products", "all 65536 monomial pairs (X^i, X^j) x 36 coefficient pairs: invntt(ntt(a) o ntt(b)) == a*b mod (X^256+1, q); invntt(ntt(a)) == a*2^32", "", 65536*36, 4096, func(c *drv.Ctx, lo, hi int64) {
		for idx := lo; idx < hi; idx++ {
			c.At(idx)
			i, j := int(idx>>8&255), int(idx&255)
			ca, cb := alpha[idx>>16%6], alpha[idx>>16/6]
			var a, b, pr [256]int32
			a[i], b[j] = int32(ca), int32(cb)
			a0 := a
			dilithium.VerifNTT(&a)
			dilithium.VerifNTT(&b)
			dilithium.VerifPointwise(&pr, &a, &b)
			dilithium.VerifInvNTTToMont(&pr)
			expC := mod(mod(ca) * mod(cb))
			pos := i + j
			if pos >= 256 {
				pos -= 256
				expC = mod(-expC)
			}
			ok := true
			for k := 0; k < 256; k++ {
				e := int64(0)
				if k == pos {
					e = expC
				}
				if mod(int64(pr[k])) != e || int64(pr[k]) <= -Q || int64(pr[k]) >= Q {
					ok = false
				}
			}
			c.Eval(1)
			c.Nontrivial(1)
			if !ok {
				c.Fail(idx, "ntt-product", map[string]any{"i": i, "j": j, "ca": ca, "cb": cb, "expected": fmt.Sprintf("%d * X^%d", expC, pos), "observed_at_pos": pr[pos]})
				continue
			}
			if j == 0 && cb == 1 {
				// round trip of a alone
				rt := a
				dilithium.VerifInvNTTToMont(&rt)
				for k := 0; k < 256; k++ {
					if mod(int64(rt[k])) != mod(int64(a0[k])*(int64(1)<<32%Q)) {
						c.Fail(idx, "ntt-roundtrip", map[string]any{"i": i, "ca": ca})
						break
					}
				}
			}
			c.Outcome("ok")
			if idx == 257 {
				c.Sample(map[string]any{"a": "X^1", "b": "X^1", "product": fmt.Sprintf("%d*X^2", pr[2])})
			}
		}
	})
	qd("ntt-dense-extremes", "dense vectors: all pairs of 256 block-constant +-(q-1) sign patterns vs schoolbook; maximum |coefficient| after ntt is reported", "t", 256*256, 64, func(c *drv.Ctx, lo, hi int64) {
		for idx := lo; idx < hi; idx++ {
			c.At(idx)
			var a, b, pr [256]int32
			for k := 0; k < 256; k++ {
				a[k] = Q - 1
				if idx>>8>>uint(k/32)&1 == 1 {
					a[k] = -(Q - 1)
				}
				b[k] = Q - 1
				if idx&255>>uint(k/32)&1 == 1 {
					b[k] = -(Q - 1)
				}
			}
			var exp [256]int64
			for x := 0; x < 256; x++ {
				for y := 0; y < 256; y++ {
					p := mod(int64(a[x])) * mod(int64(b[y])) % Q
					if x+y >= 256 {
						exp[x+y-256] = mod(exp[x+y-256] - p)
					} else {
						exp[x+y] = mod(exp[x+y] + p)
					}
				}
			}
			dilithium.VerifNTT(&a)
			dilithium.VerifNTT(&b)
			for k := 0; k < 256; k++ {
				v := int64(a[k])
				if v < 0 {
					v = -v
				}
				c.Max("abs_coeff_after_ntt", v)
			}
			dilithium.VerifPointwise(&pr, &a, &b)
			dilithium.VerifInvNTTToMont(&pr)
			c.Eval(1)
			c.Nontrivial(1)
			for k := 0; k < 256; k++ {
				if mod(int64(pr[k])) != exp[k] {
					c.Fail(idx, "ntt-dense-product", map[string]any{"pattern_a": idx >> 8, "pattern_b": idx & 255, "position": k})
					break
				}
			}
			c.Outcome("ok")
		}
	})
	if optRegister != nil {
		optRegister(qd)
	} else {
		qd("optional-domains-skipped", "", "", 1, 1, func(c *drv.Ctx, lo, hi int64) {
			c.Cap("the vector-level hook does not fit this tree: domains vector-lifting / vector-chknorm skipped")
			c.Outcome("skipped")
		})
	}
	drv.Main(ck)
}
