//go:build !no_dil_arith_vec

package main

import (
	"fmt"

	"github.com/theQRL/go-qrllib/dilithium"
	"verifmc/drv"
)

func init() {
	optRegister = func(qd func(name, desc, tier string, size, chunk int64, run func(c *drv.Ctx, lo, hi int64))) {
		// vector level: every polyvec helper must be the coefficient-wise lifting of its scalar function over ALL K (resp. L)
		// polynomials and all 256 positions (a loop bound, a neighbour index or a copy-instead-of-reference slip lives here)
		vecOps := []string{"Lreduce", "Kreduce", "Kcaddq", "Ladd", "Kadd", "Ksub", "KshiftL", "Kp2r", "Kdecompose", "Kmakehint", "Kusehint", "Lpwpoly", "Kpwpoly", "Lacc", "Lntt", "Kntt", "Linvntt", "Kinvntt"}
		qd("vector-lifting", "18 polyvec helpers on 64 marker inputs each (distinct value per polynomial index and position, extreme in-domain values): result == the scalar function applied to every coefficient of every polynomial", "", int64(len(vecOps))*64, 8, func(c *drv.Ctx, lo, hi int64) {
			for idx := lo; idx < hi; idx++ {
				c.At(idx)
				op := vecOps[idx/64]
				variant := int(idx % 64)
				n := 8
				if op[0] == 'L' {
					n = 7
				}
				a := make([][256]int32, n)
				b := make([][256]int32, n)
				var cp [256]int32
				val := func(i, p, salt int) int64 {
					return int64((i*2654435+p*40503+salt*7919+variant*104729)%(2*Q-1)) - (Q - 1)
				}
				for i := 0; i < n; i++ {
					for p := 0; p < 256; p++ {
						va, vb := val(i, p, 1), val(i, p, 2)
						switch op {
						case "Lreduce", "Kreduce": // any int32 up to 2^31-2^22-1
							va = va * 250
						case "Kcaddq":
							// (-q, q)
						case "KshiftL":
							va = mod(va) % 1024
						case "Kp2r", "Kdecompose", "Kusehint":
							va = mod(va)
							vb = vb & 1
						case "Kmakehint":
							va = va % (2*GAMMA2 - BETA - 1) // a0
							if (p+variant)%9 == 0 {
								va = -GAMMA2
							}
							if (p+variant)%11 == 0 {
								va = GAMMA2
							}
							vb = mod(vb) % 16
							if (p+i+variant)%3 == 0 {
								vb = 0
							}
						}
						a[i][p], b[i][p] = int32(va), int32(vb)
					}
				}
				for p := 0; p < 256; p++ {
					cp[p] = int32(val(99, p, 3))
				}
				fail := func(i, p int, exp, got int64) {
					c.Fail(idx, "vector-helper-is-not-the-lifting-of-its-scalar-function:"+op, map[string]any{"op": op, "polynomial": i, "position": p, "expected": exp, "observed": got, "variant": variant})
				}
				out, out2, ret := dilithium.VerifVecOp(op, a, b, &cp, 0)
				c.Eval(1)
				c.Nontrivial(1)
				ok := true
				for i := 0; i < n && ok; i++ {
					for p := 0; p < 256 && ok; p++ {
						var exp, exp2 int64
						var got, got2 int64
						if op != "Lacc" {
							got = int64(out[i][p])
						}
						switch op {
						case "Lreduce", "Kreduce":
							exp = int64(dilithium.VerifReduce32(a[i][p]))
						case "Kcaddq":
							exp = int64(dilithium.VerifCAddQ(a[i][p]))
						case "Ladd", "Kadd":
							exp = int64(a[i][p]) + int64(b[i][p])
						case "Ksub":
							exp = int64(a[i][p]) - int64(b[i][p])
						case "KshiftL":
							exp = int64(a[i][p]) << D
						case "Kp2r":
							e1, e0 := dilithium.VerifPower2Round(a[i][p])
							exp, exp2, got2 = int64(e1), int64(e0), int64(out2[i][p])
						case "Kdecompose":
							e1, e0 := dilithium.VerifDecompose(a[i][p])
							exp, exp2, got2 = int64(e1), int64(e0), int64(out2[i][p])
						case "Kmakehint":
							exp = int64(dilithium.VerifMakeHint(a[i][p], b[i][p]))
						case "Kusehint":
							exp = int64(dilithium.VerifUseHint(a[i][p], int(b[i][p])))
						case "Lpwpoly", "Kpwpoly":
							exp = int64(dilithium.VerifMontgomeryReduce(int64(cp[p]) * int64(a[i][p])))
						case "Lntt", "Kntt":
							x := a[i]
							dilithium.VerifNTT(&x)
							exp = int64(x[p])
						case "Linvntt", "Kinvntt":
							x := a[i]
							dilithium.VerifInvNTTToMont(&x)
							exp = int64(x[p])
						case "Lacc":
							if i > 0 {
								continue
							}
							for j := 0; j < n; j++ {
								exp += int64(dilithium.VerifMontgomeryReduce(int64(a[j][p]) * int64(b[j][p])))
							}
							got = int64(out[0][p])
						}
						congr := map[string]bool{"Lpwpoly": true, "Kpwpoly": true, "Lntt": true, "Kntt": true, "Linvntt": true, "Kinvntt": true, "Lacc": true}
						if congr[op] {
							// for products and transforms the property is equality modulo q (the representative is an implementation choice)
							if mod(got) != mod(exp) {
								fail(i, p, exp, got)
								ok = false
							}
						} else if got != exp || got2 != exp2 {
							fail(i, p, exp, got)
							ok = false
						}
					}
				}
				if op == "Kmakehint" && ok {
					cnt := 0
					for i := range out {
						for p := range out[i] {
							cnt += int(out[i][p])
						}
					}
					if cnt != ret {
						c.Fail(idx, "vector-makehint-count", map[string]any{"expected": cnt, "observed": ret})
					}
				}
				c.Outcome("ok")
				if idx == 0 {
					c.Sample(map[string]any{"op": op, "variant": variant})
				}
			}
		})
		qd("vector-chknorm", "polyVecL/KChkNorm: a single coefficient at the bound (B, B-1, -B, -(B-1)) placed in EACH polynomial x 5 positions x 5 bounds, all others zero: result == [that coefficient >= B]", "", (8+7)*5*5*4, 100, func(c *drv.Ctx, lo, hi int64) {
			for idx := lo; idx < hi; idx++ {
				c.At(idx)
				k := idx
				vi := int(k % 4)
				k /= 4
				B := []int32{1, GAMMA1 - BETA, GAMMA2 - BETA, GAMMA2, (Q - 1) / 8}[k%5]
				k /= 5
				pos := []int{0, 1, 127, 254, 255}[k%5]
				k /= 5
				poly := int(k)
				op, n := "Kchknorm", 8
				if poly >= 8 {
					op, n, poly = "Lchknorm", 7, poly-8
				}
				v := []int32{B, B - 1, -B, -(B - 1)}[vi]
				a := make([][256]int32, n)
				a[poly][pos] = v
				_, _, ret := dilithium.VerifVecOp(op, a, nil, nil, B)
				exp := 0
				if v >= B || -v >= B {
					exp = 1
				}
				c.Eval(1)
				c.Nontrivial(1)
				c.Outcome(fmt.Sprint(ret))
				if ret != exp {
					c.Fail(idx, "vector-chknorm:"+op, map[string]any{"polynomial": poly, "position": pos, "value": v, "B": B, "expected": exp, "observed": ret})
				}
			}
		})
	}
}
