// C13 — Dilithium key and signature encodings are lossless and canonical.
// Engine E3: every value in range x every coefficient position per packer against a generic
// LSB-first bit-stream reference; hint vectors of every admissible weight; canonicity of accepted strings.
package main

import (
	"bytes"
	"fmt"

	"github.com/theQRL/go-qrllib/dilithium"
	"verifmc/drv"
	"verifmc/refdil"
)

type packer struct {
	kind     string
	min, max int32 // coefficient range
	unpack   bool
	ref      func(p *refdil.Poly) []byte
	refUn    func(b []byte) refdil.Poly
	bytes    int
}

var packers = []packer{
	{"t1", 0, 1023, true, refdil.PackT1, refdil.UnpackT1, 320},
	{"t0", -4095, 4096, true, refdil.PackT0, refdil.UnpackT0, 416},
	{"eta", -2, 2, true, refdil.PackEta, refdil.UnpackEta, 96},
	{"z", -(1<<19 - 1), 1 << 19, true, refdil.PackZ, refdil.UnpackZ, 640},
	{"w1", 0, 15, false, refdil.PackW1, nil, 128},
}

func toRef(a *[256]int32) (p refdil.Poly) {
	for i, v := range a {
		p[i] = refdil.Mod(int64(v))
	}
	return
}

func checkPoly(c *drv.Ctx, idx int64, pk packer, a *[256]int32, what string) bool {
	a0 := *a
	b := dilithium.VerifPolyPack(pk.kind, a)
	rp := toRef(&a0)
	if exp := pk.ref(&rp); !bytes.Equal(b, exp) {
		d := 0
		for ; d < len(b) && b[d] == exp[d]; d++ {
		}
		c.Fail(idx, pk.kind+"-pack-differs-from-bitstream-reference", map[string]any{"case": what, "first_differing_byte": d})
		return false
	}
	if *a != a0 {
		c.Fail(idx, pk.kind+"-pack-modified-input", nil)
	}
	if pk.unpack {
		back := dilithium.VerifPolyUnpack(pk.kind, b)
		if back != a0 {
			d := 0
			for ; d < 256 && back[d] == a0[d]; d++ {
			}
			c.Fail(idx, pk.kind+"-roundtrip", map[string]any{"case": what, "position": d, "expected": a0[d], "observed": back[d]})
			return false
		}
	}
	return true
}

func main() {
	ck := &drv.Check{Property: "C13", Level: "model_checking",
		Rule: "full value x position enumeration per packer (t1 10 bit, t0 13 bit centred, eta [-2,2], z 20 bit centred, w1 4 bit) with backgrounds {min,max,0}; every adjacent-lane pair x 7x7 alphabet; unpack against the reference on every single-byte substitution x 256 values; " +
			"hint vectors of every weight 0..75 in 6 distributions; pk/sk/sig composition with marker polynomials; canonicity: every accepted hint-section string re-encodes to itself. non-trivial = every enumerated (value, position, background) is a distinct in-range input",
		Assumptions: []string{"unpack on arbitrary byte patterns is enumerated for single-byte deviations from valid encodings (and all 2^24 patterns of one eta group); the full 2^40 group space of t1/z is not enumerable"}}
	for _, pk := range packers {
		pk := pk
		nv := int64(pk.max-pk.min) + 1
		positions := func(tier string) []int {
			if pk.kind == "z" && tier == "quick" {
				return []int{0, 1, 2, 3, 127, 128, 254, 255}
			}
			p := make([]int, 256)
			for i := range p {
				p[i] = i
			}
			return p
		}
		for _, tier := range []string{"q", "t"} {
			if pk.kind != "z" && tier == "t" {
				continue
			}
			tn := map[string]string{"q": "quick", "t": "thorough"}[tier]
			ps := positions(tn)
			tt := tier
			if pk.kind != "z" {
				tt = ""
			}
			ck.Domains = append(ck.Domains, &drv.Domain{Name: fmt.Sprintf("%s-values-%dpos", pk.kind, len(ps)), Tier: tt, Size: nv * int64(len(ps)) * 3, Chunk: 1 << 14,
				Desc: fmt.Sprintf("%s: every value in [%d,%d] x %d positions x backgrounds {min,max,0}: pack == bit-stream reference, unpack(pack(v)) == v", pk.kind, pk.min, pk.max, len(ps)),
				Run: func(c *drv.Ctx, lo, hi int64) {
					c.At(lo)
					for i := lo; i < hi; i++ {
						v := pk.min + int32(i%nv)
						pos := ps[i/nv%int64(len(ps))]
						bg := []int32{pk.min, pk.max, 0}[i/nv/int64(len(ps))]
						var a [256]int32
						for k := range a {
							a[k] = bg
						}
						a[pos] = v
						if !checkPoly(c, i, pk, &a, fmt.Sprintf("value %d at position %d background %d", v, pos, bg)) {
							break
						}
					}
					c.Eval(hi - lo)
					c.Nontrivial(hi - lo)
					c.Outcome("ok")
					if lo == 0 {
						c.Sample(map[string]any{"packer": pk.kind, "value": pk.min, "position": ps[0], "background": pk.min})
					}
				}})
		}
		alpha := []int32{pk.min, pk.max, 0, 1, -1, 0x55555555, -0x55555556}
		for k := 3; k < 7; k++ { // map patterns into range
			r := int64(pk.max) - int64(pk.min) + 1
			alpha[k] = pk.min + int32(((int64(alpha[k])-int64(pk.min))%r+r)%r)
		}
		ck.Domains = append(ck.Domains, &drv.Domain{Name: pk.kind + "-adjacent-lanes", Size: 255 * 49, Chunk: 49,
			Desc: pk.kind + ": every adjacent position pair (p,p+1) x 7x7 value alphabet (min,max,0,+-1,0x55..,0xAA.. folded into range)",
			Run: func(c *drv.Ctx, lo, hi int64) {
				for i := lo; i < hi; i++ {
					c.At(i)
					p := int(i / 49)
					var a [256]int32
					a[p], a[p+1] = alpha[i%7], alpha[i/7%7]
					checkPoly(c, i, pk, &a, fmt.Sprintf("lanes %d,%d = %d,%d", p, p+1, a[p], a[p+1]))
					c.Eval(1)
					c.Nontrivial(1)
					c.Outcome("ok")
				}
			}})
		if pk.unpack {
			ck.Domains = append(ck.Domains, &drv.Domain{Name: pk.kind + "-unpack-bytes", Size: int64(pk.bytes) * 256 * 2, Chunk: 4096,
				Desc: pk.kind + ": unpack == reference on every single-byte substitution (all 256 values, every byte position) of an all-00 and an all-A5 buffer",
				Run: func(c *drv.Ctx, lo, hi int64) {
					c.At(lo)
					for i := lo; i < hi; i++ {
						buf := make([]byte, pk.bytes)
						if i/256/int64(pk.bytes) == 1 {
							for k := range buf {
								buf[k] = 0xA5
							}
						}
						pos := int(i / 256 % int64(pk.bytes))
						buf[pos] = byte(i)
						b0 := append([]byte(nil), buf...)
						got := dilithium.VerifPolyUnpack(pk.kind, buf)
						exp := pk.refUn(b0)
						for k := range got {
							if refdil.Mod(int64(got[k])) != refdil.Mod(exp[k]) {
								c.Fail(i, pk.kind+"-unpack-differs-from-reference", map[string]any{"byte_position": pos, "byte_value": byte(i), "coefficient": k, "expected": refdil.Centre(exp[k]), "observed": got[k]})
								break
							}
						}
						if !bytes.Equal(buf, b0) {
							c.Fail(i, pk.kind+"-unpack-modified-input", nil)
						}
					}
					c.Eval(hi - lo)
					c.Nontrivial(hi - lo)
					c.Outcome("ok")
				}})
		}
	}
	ck.Domains = append(ck.Domains, &drv.Domain{Name: "eta-group-patterns", Tier: "t", Size: 1 << 24, Chunk: 1 << 14, Desc: "eta unpack == reference on every 3-byte pattern of one 8-coefficient group",
		Run: func(c *drv.Ctx, lo, hi int64) {
			c.At(lo)
			buf := make([]byte, 96)
			for i := lo; i < hi; i++ {
				g := int(i % 32)
				for k := range buf {
					buf[k] = 0
				}
				buf[3*g], buf[3*g+1], buf[3*g+2] = byte(i), byte(i>>8), byte(i>>16)
				got := dilithium.VerifPolyUnpack("eta", buf)
				exp := refdil.UnpackEta(buf)
				for k := range got {
					if refdil.Mod(int64(got[k])) != exp[k] {
						c.Fail(i, "eta-unpack-group", map[string]any{"pattern": i, "coefficient": k})
						break
					}
				}
			}
			c.Eval(hi - lo)
			c.Nontrivial(hi - lo)
			c.Outcome("ok")
		}})
	// hint vectors
	dists := []string{"one-row", "round-robin", "front-loaded", "gaps", "highest-positions", "consecutive"}
	ck.Domains = append(ck.Domains, &drv.Domain{Name: "hint-vectors", Size: 76 * int64(len(dists)) * 8, Chunk: 76,
		Desc: "hint vectors of every weight 0..75 x 6 distributions x row parameter 0..7: packSig == reference encoding, unpackSig(packSig(h)) == h, together with marker z and challenge",
		Run: func(c *drv.Ctx, lo, hi int64) {
			for i := lo; i < hi; i++ {
				c.At(i)
				w := int(i % 76)
				dist := dists[i/76%int64(len(dists))]
				row := int(i / 76 / int64(len(dists)))
				var h [8][256]int32
				put := func(r, p int) bool {
					if h[r][p] == 0 {
						h[r][p] = 1
						return true
					}
					return false
				}
				n := 0
				for k := 0; n < w && k < 100000; k++ {
					switch dist {
					case "one-row":
						if put(row, (k*3+row)%256) {
							n++
						}
					case "round-robin":
						if put((k+row)%8, (k/8*5+row)%256) {
							n++
						}
					case "front-loaded":
						if put(k/64%8, (k%64)*4+row%4) {
							n++
						}
					case "gaps":
						if put((k%4)*2+row%2, (k/4*7+1)%256) {
							n++
						}
					case "highest-positions":
						if put((k/10+row)%8, 255-k%10-(k/80)*10) {
							n++
						}
					case "consecutive":
						if put((k/40+row)%8, (k%40)+row*3) {
							n++
						}
					}
				}
				var z [7][256]int32
				for a := range z {
					for b := range z[a] {
						z[a][b] = int32((a*256+b)*577%1048575) - 524287
					}
				}
				ch := make([]byte, 32)
				for k := range ch {
					ch[k] = byte(k*9 + w)
				}
				sig, err := dilithium.VerifPackSig(ch, &z, &h)
				c.Eval(1)
				c.Nontrivial(1)
				if err != nil {
					c.Fail(i, "packsig-error", map[string]any{"err": err.Error()})
					continue
				}
				var rh [8]refdil.Poly
				for a := range h {
					rh[a] = toRef(&h[a])
				}
				exp := append([]byte(nil), ch...)
				for a := range z {
					rz := toRef(&z[a])
					exp = append(exp, refdil.PackZ(&rz)...)
				}
				exp = append(exp, refdil.EncodeHint(&rh)...)
				if !bytes.Equal(sig[:], exp) {
					d := 0
					for ; d < len(exp) && sig[d] == exp[d]; d++ {
					}
					c.Fail(i, "packsig-differs-from-reference", map[string]any{"weight": w, "distribution": dist, "row": row, "first_differing_byte": d})
					continue
				}
				c2, z2, h2, rc := dilithium.VerifUnpackSig(sig)
				if rc != 0 || !bytes.Equal(c2[:], ch) || z2 != z || h2 != h {
					c.Fail(i, "sig-roundtrip", map[string]any{"weight": w, "distribution": dist, "row": row, "rc": rc, "z_equal": z2 == z, "h_equal": h2 == h})
				}
				c.Outcome(fmt.Sprintf("w=%d", w))
				if w == 75 && row == 0 {
					c.Sample(map[string]any{"weight": w, "distribution": dist, "hint_section": drv.Hex(sig[len(sig)-83:])})
				}
			}
		}})
	// pk / sk composition with marker polynomials
	ck.Domains = append(ck.Domains, &drv.Domain{Name: "pk-sk-composition", Size: 64, Chunk: 4, Desc: "packPk/packSk/unpack with a distinct marker polynomial per component (detects cross-wiring and offset slips) vs the reference composition; cases 56..61: rho / tr / key made of 32 zero or FF bytes (whole-component boundary values)",
		Run: func(c *drv.Ctx, lo, hi int64) {
			for i := lo; i < hi; i++ {
				c.At(i)
				var rho, tr, key [32]byte
				for k := 0; k < 32; k++ {
					rho[k], tr[k], key[k] = byte(k+int(i)), byte(0x40+k+int(i)), byte(0x80+k+int(i))
				}
				// the last cases carry whole-component boundary values: a seed component of 32 zero / FF bytes
				deg := func(b *[32]byte, v byte) {
					for k := range b {
						b[k] = v
					}
				}
				switch i {
				case 56:
					deg(&rho, 0)
				case 57:
					deg(&rho, 0xFF)
				case 58:
					deg(&tr, 0)
				case 59:
					deg(&key, 0)
				case 60:
					deg(&rho, 0)
					deg(&tr, 0)
					deg(&key, 0)
				case 61:
					deg(&rho, 0xFF)
					deg(&tr, 0xFF)
					deg(&key, 0xFF)
				}
				var t1, t0, s2 [8][256]int32
				var s1 [7][256]int32
				for a := 0; a < 8; a++ {
					for b := 0; b < 256; b++ {
						t1[a][b] = int32((a*37 + b*11 + int(i)) % 1024)
						t0[a][b] = int32((a*41+b*13+int(i)*7)%8192) - 4095
						s2[a][b] = int32((a+b*3+int(i))%5) - 2
					}
				}
				for a := 0; a < 7; a++ {
					for b := 0; b < 256; b++ {
						s1[a][b] = int32((a*2+b+int(i)*3)%5) - 2
					}
				}
				pk := dilithium.VerifPackPk(rho, &t1)
				exp := append([]byte(nil), rho[:]...)
				for a := 0; a < 8; a++ {
					r := toRef(&t1[a])
					exp = append(exp, refdil.PackT1(&r)...)
				}
				c.Eval(2)
				c.Nontrivial(2)
				if !bytes.Equal(pk[:], exp) {
					c.Fail(i, "packpk-differs-from-reference", nil)
				}
				r2, t12 := dilithium.VerifUnpackPk(&pk)
				if r2 != rho || t12 != t1 {
					c.Fail(i, "pk-roundtrip", nil)
				}
				// history: a second key with the SAME rho and another t1 must decode to its own t1
				t1b := t1
				for a := 0; a < 8; a++ {
					for b := 0; b < 256; b++ {
						t1b[a][b] = (t1[a][b] + int32(1+a+b)) % 1024
					}
				}
				pkb := dilithium.VerifPackPk(rho, &t1b)
				if r3, t13 := dilithium.VerifUnpackPk(&pkb); r3 != rho || t13 != t1b {
					c.Fail(i, "pk-roundtrip-second-key-same-rho", nil)
				}
				if r4, t14 := dilithium.VerifUnpackPk(&pk); r4 != rho || t14 != t1 {
					c.Fail(i, "pk-roundtrip-first-key-again", nil)
				}
				sk := dilithium.VerifPackSk(rho, tr, key, &t0, &s1, &s2)
				exps := append(append(append([]byte(nil), rho[:]...), key[:]...), tr[:]...)
				for a := 0; a < 7; a++ {
					r := toRef(&s1[a])
					exps = append(exps, refdil.PackEta(&r)...)
				}
				for a := 0; a < 8; a++ {
					r := toRef(&s2[a])
					exps = append(exps, refdil.PackEta(&r)...)
				}
				for a := 0; a < 8; a++ {
					r := toRef(&t0[a])
					exps = append(exps, refdil.PackT0(&r)...)
				}
				if !bytes.Equal(sk[:], exps) {
					d := 0
					for ; d < len(exps) && sk[d] == exps[d]; d++ {
					}
					c.Fail(i, "packsk-differs-from-reference", map[string]any{"first_differing_byte": d})
				}
				a1, a2, a3, a4, a5, a6 := dilithium.VerifUnpackSk(&sk)
				if a1 != rho || a2 != tr || a3 != key || a4 != t0 || a5 != s1 || a6 != s2 {
					c.Fail(i, "sk-roundtrip", map[string]any{"rho": a1 == rho, "tr": a2 == tr, "key": a3 == key, "t0": a4 == t0, "s1": a5 == s1, "s2": a6 == s2})
				}
				c.Outcome("ok")
				if i == 0 {
					c.Sample(map[string]any{"pk_prefix": drv.Hex(pk[:48])})
				}
			}
		}})
	// canonicity of accepted hint-section strings: single-byte substitutions of canonical encodings
	ck.Domains = append(ck.Domains, &drv.Domain{Name: "hint-canonicity", Size: 6 * 83 * 256, Chunk: 83 * 16,
		Desc: "from 6 canonical hint encodings (weights 0, 1, 40, 74, 75, 75-in-last-row) every single-byte substitution x 256 values: decoder accepts <=> reference decoder accepts; accepted => packSig(unpackSig(s)) == s",
		Run: func(c *drv.Ctx, lo, hi int64) {
			for i := lo; i < hi; i++ {
				c.At(i)
				base := hintBase(int(i / (83 * 256)))
				pos, val := int(i/256%83), byte(i)
				s := append([]byte(nil), base...)
				s[pos] = val
				checkHintString(c, i, s, fmt.Sprintf("base %d byte %d := %02x", i/(83*256), pos, val))
			}
		}})
	drv.Main(ck)
}

func hintBase(k int) []byte {
	var h [8]refdil.Poly
	switch k {
	case 0:
	case 1:
		h[3][17] = 1
	case 2:
		for j := 0; j < 40; j++ {
			h[j%8][(j*6+1)%256] = 1
		}
	case 3:
		for j := 0; j < 74; j++ {
			h[j%8][(j*3+2)%256] = 1
		}
	case 4:
		for j := 0; j < 75; j++ {
			h[j%8][(j*3)%256] = 1
		}
	case 5:
		for j := 0; j < 75; j++ {
			h[7][j*3+5] = 1
		}
	}
	return refdil.EncodeHint(&h)
}

func checkHintString(c *drv.Ctx, i int64, s []byte, what string) {
	c.Eval(1)
	var h [8][256]int32
	var rc int
	if o := drv.Call(func() { h, rc = dilithium.VerifUnpackHint(s) }); o != "ok" {
		c.Fail(i, "hint-decoder-faulted", map[string]any{"case": what, "hint_section": drv.FullHex(s), "observed": o})
		return
	}
	rh, ok := refdil.DecodeHint(s)
	if (rc == 0) != ok {
		c.Fail(i, fmt.Sprintf("hint-decoder-accepts=%v-reference=%v", rc == 0, ok), map[string]any{"case": what, "hint_section": drv.FullHex(s)})
		return
	}
	c.Outcome(fmt.Sprintf("accept=%v", ok))
	if !ok {
		return
	}
	c.Nontrivial(1)
	for a := range h {
		for b := range h[a] {
			if int64(h[a][b]) != rh[a][b] {
				c.Fail(i, "hint-decoded-vector-differs-from-reference", map[string]any{"case": what, "row": a, "position": b})
				return
			}
		}
	}
	var z [7][256]int32
	sig, err := dilithium.VerifPackSig(make([]byte, 32), &z, &h)
	if err != nil || !bytes.Equal(sig[len(sig)-83:], s) {
		c.Fail(i, "accepted-hint-string-is-not-canonical", map[string]any{"case": what, "hint_section": drv.FullHex(s), "re_encoded": drv.FullHex(sig[len(sig)-83:])})
	}
}
