// C14 — verification and decoding of untrusted bytes never crashes.
// Engine E3: the dimensions that drive control flow are enumerated completely (every length x every
// descriptor x fills); every call runs under recover(); input buffers are compared with copies.
package main

import (
	"bytes"
	"fmt"
	"os"
	"os/exec"
	"strings"
	"time"

	"github.com/theQRL/go-qrllib/common"
	"github.com/theQRL/go-qrllib/dilithium"
	"github.com/theQRL/go-qrllib/misc"
	"github.com/theQRL/go-qrllib/qrl"
	"github.com/theQRL/go-qrllib/xmss"
	"verifmc/chalcorpus"
	"verifmc/drv"
	"verifmc/refdil"
	"verifmc/refxmss"
	"verifmc/seeds"
)

// classify: "value:<..>" | "refused:<msg>" | FAULT
func run(c *drv.Ctx, i int64, entry string, mayRefuse bool, what func() string, f func() string) string {
	var v string
	o := drv.Call(func() { v = f() })
	switch {
	case o == "ok":
		return "value:" + v
	case strings.HasPrefix(o, "panic-string:"):
		if !mayRefuse {
			c.Fail(i, entry+":refused-but-must-never-refuse", map[string]any{"input": what(), "observed": o})
		}
		return "refused:" + o[13:]
	case strings.HasPrefix(o, "panic-error:"):
		c.Count("error_typed_panics", 1)
		if !mayRefuse {
			c.Fail(i, entry+":refused-but-must-never-refuse", map[string]any{"input": what(), "observed": o})
		}
		return "refused:" + o
	}
	kind := o
	if k := strings.Index(o, ":"); k > 0 {
		kind = o[:k]
	}
	msg := o
	if strings.Contains(o, "index out of range") {
		msg = "index out of range"
	} else if strings.Contains(o, "slice bounds out of range") {
		msg = "slice bounds out of range"
	} else if strings.Contains(o, "nil pointer") {
		msg = "nil pointer dereference"
	}
	c.Fail(i, entry+":runtime-fault:"+kind+":"+msg, map[string]any{"input": what(), "observed": o})
	return "fault"
}

func fillBytes(n, kind int, valid []byte) []byte {
	b := make([]byte, n)
	switch kind {
	case 0:
	case 1:
		for i := range b {
			b[i] = 0xFF
		}
	case 2:
		for i := range b {
			b[i] = 0x5A
		}
	case 3:
		copy(b, valid)
	}
	return b
}

var validXSig []byte
var validXPK [67]byte
var validXMsg = []byte("c14 valid message")

func initX(vseed int64) {
	if validXSig != nil {
		return
	}
	k := xmss.NewXMSSFromSeed(seeds.Seed48(3, vseed), 4, xmss.SHAKE_128, common.SHA256_2X)
	validXSig, _ = k.Sign(validXMsg)
	validXPK = k.GetPK()
}

func baseSize(w uint32) int {
	switch w {
	case 4:
		return 4 + 32 + 133*32
	case 256:
		return 4 + 32 + 34*32
	}
	return 4 + 32 + 67*32
}

// ---- first-call cases: each runs as the FIRST library call of a fresh process (fixtures come from the reference models) ----

type firstCase struct {
	name string
	run  func() string
	want string // "" = any non-faulting outcome
}

func firstCases() []firstCase {
	var seed [48]byte
	for i := range seed {
		seed[i] = byte(i + 1)
	}
	rk := refdil.KeyGenFromWalletSeed(seed[:])
	msg := []byte("first call")
	rs := rk.Sign(msg, refdil.Skip{}).Sig
	var sig [dilithium.CryptoBytes]byte
	copy(sig[:], rs)
	var pk, pkZeroRho, pkZero, pkFF [dilithium.CryptoPublicKeyBytes]byte
	copy(pk[:], rk.PK)
	pkZeroRho = pk
	for i := 0; i < 32; i++ {
		pkZeroRho[i] = 0
	}
	for i := range pkFF {
		pkFF[i] = 0xFF
	}
	sm := append(append([]byte(nil), rs...), msg...)
	var xs [48]byte
	xk := refxmss.NewKey(xs[:], 4, refxmss.SHAKE128)
	xsig := xk.Sign(3, msg)
	var xpk [67]byte
	copy(xpk[:], xk.PK())
	words := qrl.WordList[:]
	phrase := strings.TrimSpace(strings.Repeat(words[1]+" ", 32))
	b := func(v bool) string { return fmt.Sprint(v) }
	return []firstCase{
		{"dilithium.Verify(valid triple)", func() string { return b(dilithium.Verify(msg, sig, &pk)) }, "value:true"},
		{"dilithium.Open(valid sealed)", func() string { return b(dilithium.Open(sm, &pk) != nil) }, "value:true"},
		{"dilithium.Verify(valid sig, pk with rho = 0)", func() string { return b(dilithium.Verify(msg, sig, &pkZeroRho)) }, "value:false"},
		{"dilithium.Open(valid sealed, pk with rho = 0)", func() string { return b(dilithium.Open(sm, &pkZeroRho) != nil) }, "value:false"},
		{"dilithium.Verify(valid sig, all-zero pk)", func() string { return b(dilithium.Verify(msg, sig, &pkZero)) }, "value:false"},
		{"dilithium.Verify(valid sig, all-FF pk)", func() string { return b(dilithium.Verify(msg, sig, &pkFF)) }, "value:false"},
		{"dilithium.Verify(zero sig, valid pk)", func() string { return b(dilithium.Verify(msg, [dilithium.CryptoBytes]byte{}, &pk)) }, "value:false"},
		{"dilithium.Open(short)", func() string { return b(dilithium.Open([]byte{1, 2, 3}, &pk) != nil) }, "value:false"},
		{"GetDilithiumAddressFromPK(zero pk)", func() string { a := dilithium.GetDilithiumAddressFromPK(pkZero); return drv.Hex(a[:1]) }, "value:10"},
		{"IsValidDilithiumAddress(zero)", func() string { return b(dilithium.IsValidDilithiumAddress([20]byte{})) }, "value:false"},
		{"xmss.Verify(valid triple)", func() string { return b(xmss.Verify(msg, xsig, xpk)) }, "value:true"},
		{"xmss.Verify(zero sig of height 6 then valid)", func() string {
			p6 := xpk
			p6[1] = 3
			xmss.Verify(msg, make([]byte, 2180+6*32), p6)
			return b(xmss.Verify(msg, xsig, xpk))
		}, "value:true"},
		{"xmss.VerifyWithCustomWOTSParamW(256) then Verify(valid)", func() string {
			drv.Call(func() { xmss.VerifyWithCustomWOTSParamW(msg, make([]byte, 4+32+34*32+4*32), xpk, 256) })
			return b(xmss.Verify(msg, xsig, xpk))
		}, "value:true"},
		{"xmss.VerifyWithCustomWOTSParamW(4, len 0)", func() string { return b(xmss.VerifyWithCustomWOTSParamW(msg, nil, xpk, 4)) }, ""},
		{"xmss.Verify(len 3)", func() string { return b(xmss.Verify(msg, []byte{0, 0, 0}, xpk)) }, ""},
		{"IsValidXMSSAddress(zero)", func() string { return b(xmss.IsValidXMSSAddress([20]byte{})) }, "value:true"},
		{"IsValidLegacyXMSSAddress(zero)", func() string { return b(xmss.IsValidLegacyXMSSAddress([39]byte{})) }, "value:false"},
		{"GetXMSSAddressFromPK(valid pk)", func() string { a := xmss.GetXMSSAddressFromPK(xpk); return drv.Hex(a[:3]) }, "value:010200"},
		{"GetLegacyXMSSAddressFromPK(valid pk)", func() string { a := xmss.GetLegacyXMSSAddressFromPK(xpk); return drv.Hex(a[:3]) }, "value:010200"},
		{"MnemonicToSeedBin(32 valid words)", func() string { a := misc.MnemonicToSeedBin(phrase); return drv.Hex(a[:3]) }, ""},
		{"MnemonicToSeedBin(unknown word) twice", func() string {
			drv.Call(func() { misc.MnemonicToSeedBin(phrase + "x") })
			a := misc.MnemonicToSeedBin(phrase + "x")
			return drv.Hex(a[:3])
		}, "refused"},
		{"MnemonicToExtendedSeedBin(empty)", func() string { a := misc.MnemonicToExtendedSeedBin(""); return drv.Hex(a[:3]) }, "refused"},
	}
}

func main() {
	if s := os.Getenv("VERIF_C14_FIRST"); s != "" {
		var n int
		fmt.Sscan(s, &n)
		fc := firstCases()[n]
		var v string
		o := drv.Call(func() { v = fc.run() })
		if o == "ok" {
			fmt.Println("value:" + v)
		} else {
			fmt.Println(o)
		}
		return
	}
	ck := &drv.Check{Property: "C14", Level: "model_checking",
		Rule: "structural enumeration under recover(): XMSS Verify / VerifyWithCustomWOTSParamW(4,16,256) on every signature length 0..base+31*32+40 x every descriptor (w=16: all 2^16; w=4,256: quick 5^4 nibble alphabet, thorough 2^16) and, for the cases that pass the guards, x 4 fills x 4 message lengths; " +
			"address functions on all 2^16 descriptors x fills; dilithium.Verify/Open on every sealed length 0..4595+300, every single-byte substitution of the hint section x 256 values, extreme z, pk fills; mnemonic decoders on every token sequence of length <= 4 over a 7-token alphabet and single deviations in 30..36-word phrases. " +
			"oracle: value or explicit string panic; a runtime.Error is a violation; Dilithium entry points may not panic at all; inputs unchanged. non-trivial = a case that gets past the structural guards (reaches hashing / decoding)",
		Assumptions: []string{"'never loops forever' is checked by a 10 min no-progress horizon per case (more than 10^5 x the slowest legitimate call)", "a non-runtime error-typed panic is counted, not alarmed on"}}
	// --- XMSS verify: all lengths x all descriptors (cheap rejects + the guard-passing cases with a zero fill)
	xmssSweep := func(name, tier string, w uint32, descs func(k int64) (byte, byte), nd int64) {
		maxLen := int64(baseSize(w) + 31*32 + 40)
		ck.Domains = append(ck.Domains, &drv.Domain{Name: name, Tier: tier, Size: (maxLen + 1) * nd, Chunk: nd,
			Desc: fmt.Sprintf("w=%d: every signature length 0..%d x %d descriptors, zero fill, empty message", w, maxLen, nd),
			Run: func(c *drv.Ctx, lo, hi int64) {
				for i := lo; i < hi; i++ {
					if i%4096 == 0 || i == lo {
						c.At(i)
					}
					l := int(i / nd)
					b0, b1 := descs(i % nd)
					sig := make([]byte, l)
					var pk [67]byte
					pk[0], pk[1] = b0, b1
					h := int(b1&15) * 2
					passes := b0>>4 == 0 && l == baseSize(w)+32*h && h >= 4
					if passes {
						c.At(i)
						c.Nontrivial(1)
					}
					what := func() string {
						return fmt.Sprintf("w=%d len(sig)=%d descriptor=%02x%02x fill=00 len(msg)=0", w, l, b0, b1)
					}
					var o string
					if w == 16 && i&1 == 0 {
						o = run(c, i, "xmss.Verify", true, what, func() string { return fmt.Sprint(xmss.Verify(nil, sig, pk)) })
					} else {
						o = run(c, i, fmt.Sprintf("xmss.VerifyWithCustomWOTSParamW(%d)", w), true, what, func() string { return fmt.Sprint(xmss.VerifyWithCustomWOTSParamW(nil, sig, pk, w)) })
					}
					for _, x := range sig {
						if x != 0 {
							c.Fail(i, "xmss.Verify:modified-signature-buffer", map[string]any{"input": what()})
							break
						}
					}
					c.Outcome(o)
				}
				c.Eval(hi - lo)
			}})
	}
	all16 := func(k int64) (byte, byte) { return byte(k >> 8), byte(k) }
	nib := []byte{0, 1, 2, 3, 15}
	nib5 := func(k int64) (byte, byte) {
		return nib[k%5]<<4 | nib[k/5%5], nib[k/25%5]<<4 | nib[k/125%5]
	}
	xmssSweep("xmss-w16-lengths-x-descriptors", "", 16, all16, 65536)
	xmssSweep("xmss-w4-lengths-x-nibbles", "q", 4, nib5, 625)
	xmssSweep("xmss-w256-lengths-x-nibbles", "q", 256, nib5, 625)
	xmssSweep("xmss-w4-lengths-x-descriptors", "t", 4, all16, 65536)
	xmssSweep("xmss-w256-lengths-x-descriptors", "t", 256, all16, 65536)
	// --- guard-passing cases: descriptors with sigtype 0 x heights x fills x message lengths
	msgLens := []int{0, 1, 32, 1000}
	for _, w := range []uint32{16, 4, 256} {
		w := w
		tier := ""
		ck.Domains = append(ck.Domains, &drv.Domain{Name: fmt.Sprintf("xmss-w%d-hashed", w), Tier: tier, Size: 16 * 256 * 4 * 4, Chunk: 64,
			Desc: fmt.Sprintf("w=%d: the cases that pass the guards (signature type 0, length matching the declared height): 16 hash nibbles x 256 byte1 values x 4 fills (00, FF, 5A, valid signature bytes) x message lengths {0,1,32,1000}", w),
			Run: func(c *drv.Ctx, lo, hi int64) {
				initX(c.Seed)
				for i := lo; i < hi; i++ {
					c.At(i)
					hn, b1 := byte(i&15), byte(i>>4)
					fill, ml := int(i>>12&3), msgLens[i>>14&3]
					h := int(b1&15) * 2
					sig := fillBytes(baseSize(w)+32*h, fill, validXSig)
					s0 := append([]byte(nil), sig...)
					msg := fillBytes(ml, fill%3, nil)
					m0 := append([]byte(nil), msg...)
					pk := validXPK
					if fill != 3 {
						copy(pk[3:], fillBytes(64, fill, nil))
					}
					pk[0], pk[1] = hn, b1
					what := func() string {
						return fmt.Sprintf("w=%d len(sig)=%d descriptor=%02x%02x fill=%d len(msg)=%d", w, len(s0), hn, b1, fill, ml)
					}
					o := run(c, i, fmt.Sprintf("xmss.VerifyWithCustomWOTSParamW(%d)", w), true, what, func() string { return fmt.Sprint(xmss.VerifyWithCustomWOTSParamW(msg, sig, pk, w)) })
					if w == 16 {
						o2 := run(c, i, "xmss.Verify", true, what, func() string { return fmt.Sprint(xmss.Verify(msg, sig, pk)) })
						if o2 != o {
							c.Fail(i, "xmss.Verify-differs-from-CustomW16", map[string]any{"input": what(), "Verify": o2, "W16": o})
						}
					}
					if !bytes.Equal(sig, s0) || !bytes.Equal(msg, m0) {
						c.Fail(i, "xmss.Verify:modified-caller-buffers", map[string]any{"input": what()})
					}
					c.Eval(1)
					if h >= 4 {
						c.Nontrivial(1)
					}
					c.Outcome(o)
					if i == 0x0121 {
						c.Sample(map[string]any{"input": what(), "outcome": o})
					}
				}
			}})
	}
	// --- every message length, with caller buffers that have spare capacity behind them
	const maxML = 2200
	ck.Domains = append(ck.Domains, &drv.Domain{Name: "xmss-message-lengths", Size: (maxML + 1) * 3, Chunk: 50,
		Desc: "xmss.Verify / VerifyWithCustomWOTSParamW(4,256) with a well-sized signature on EVERY message length 0..2200 x 3 hash functions (hash input assembly crosses every block / scratch-size boundary); signature and message are windows into larger caller buffers (64 guard bytes behind each, capacity reaching into them): no fault, and neither the windows nor the bytes behind them change",
		Run: func(c *drv.Ctx, lo, hi int64) {
			initX(c.Seed)
			for i := lo; i < hi; i++ {
				c.At(i)
				ml, hf := int(i%(maxML+1)), byte(i/(maxML+1))
				for _, w := range []uint32{16, 4, 256} {
					if w != 16 && ml%7 != 0 && ml < 2100 {
						continue // the custom-w entry points: every 7th length and the top of the range
					}
					sl := baseSize(w) + 32*4
					sbuf := make([]byte, sl+64)
					if w == 16 {
						copy(sbuf, validXSig)
					} else {
						for k := range sbuf[:sl] {
							sbuf[k] = byte(k*7 + ml)
						}
					}
					for k := sl; k < len(sbuf); k++ {
						sbuf[k] = 0xA5
					}
					mbuf := make([]byte, ml+64)
					for k := range mbuf {
						mbuf[k] = byte(k*13+int(hf)) | 1
					}
					s0, m0 := append([]byte(nil), sbuf...), append([]byte(nil), mbuf...)
					sig, msg := sbuf[:sl], mbuf[:ml] // cap(sig) = sl+64, cap(msg) = ml+64
					pk := validXPK
					pk[0], pk[1] = hf, 2
					what := func() string {
						return fmt.Sprintf("w=%d hash=%d len(msg)=%d len(sig)=%d cap(sig)=%d cap(msg)=%d", w, hf, ml, sl, cap(sig), cap(msg))
					}
					var o string
					if w == 16 {
						o = run(c, i, "xmss.Verify", true, what, func() string { return fmt.Sprint(xmss.Verify(msg, sig, pk)) })
					} else {
						o = run(c, i, fmt.Sprintf("xmss.VerifyWithCustomWOTSParamW(%d)", w), true, what, func() string { return fmt.Sprint(xmss.VerifyWithCustomWOTSParamW(msg, sig, pk, w)) })
					}
					if !bytes.Equal(sbuf, s0) || !bytes.Equal(mbuf, m0) {
						k := 0
						for ; k < len(sbuf) && sbuf[k] == s0[k]; k++ {
						}
						c.Fail(i, "xmss.Verify:modified-caller-buffers", map[string]any{"input": what(), "first_changed_signature_buffer_offset": k, "signature_window_length": sl,
							"note": "offset >= window length: the bytes BEHIND the signature in the caller's buffer were written (append / re-slice beyond len)"})
					}
					c.Eval(1)
					c.Nontrivial(1)
					c.Outcome(fmt.Sprintf("w=%d %s", w, o))
				}
			}
		}})
	// --- address functions
	ck.Domains = append(ck.Domains, &drv.Domain{Name: "xmss-address-functions", Size: 65536 * 3, Chunk: 4096, Desc: "IsValidXMSSAddress, IsValidLegacyXMSSAddress, GetXMSSAddressFromPK, GetLegacyXMSSAddressFromPK, NewQRLDescriptorFromBytes on all 2^16 descriptors x 3 fills",
		Run: func(c *drv.Ctx, lo, hi int64) {
			for i := lo; i < hi; i++ {
				c.At(i)
				b0, b1, fill := byte(i>>8), byte(i), int(i>>16)
				var a [20]byte
				var la [39]byte
				var pk [67]byte
				copy(a[:], fillBytes(20, fill, nil))
				copy(la[:], fillBytes(39, fill, nil))
				copy(pk[:], fillBytes(67, fill, nil))
				a[0], a[1], la[0], la[1], pk[0], pk[1] = b0, b1, b0, b1, b0, b1
				a0, la0, pk0 := a, la, pk
				what := func() string { return fmt.Sprintf("descriptor=%02x%02x fill=%d", b0, b1, fill) }
				o1 := run(c, i, "IsValidXMSSAddress", true, what, func() string { return fmt.Sprint(xmss.IsValidXMSSAddress(a)) })
				o2 := run(c, i, "IsValidLegacyXMSSAddress", true, what, func() string { return fmt.Sprint(xmss.IsValidLegacyXMSSAddress(la)) })
				o3 := run(c, i, "GetXMSSAddressFromPK", true, what, func() string { r := xmss.GetXMSSAddressFromPK(pk); return drv.Hex(r[:2]) })
				o4 := run(c, i, "GetLegacyXMSSAddressFromPK", true, what, func() string { r := xmss.GetLegacyXMSSAddressFromPK(pk); return drv.Hex(r[:2]) })
				if a != a0 || la != la0 || pk != pk0 {
					c.Fail(i, "address-function-modified-input", map[string]any{"input": what()})
				}
				c.Eval(4)
				c.Nontrivial(1)
				c.Outcome(o1[:9] + "|" + o2[:9] + "|" + o3[:7] + "|" + o4[:7])
				if i == 0x0102 {
					c.Sample(map[string]any{"input": what(), "IsValidXMSSAddress": o1, "GetXMSSAddressFromPK": o3})
				}
			}
		}})
	ck.Domains = append(ck.Domains, &drv.Domain{Name: "descriptor-lengths", Size: 10, Chunk: 10, Desc: "NewQRLDescriptorFromBytes / LegacyQRLDescriptorFromBytes on slices of length 0..9",
		Run: func(c *drv.Ctx, lo, hi int64) {
			for i := lo; i < hi; i++ {
				c.At(i)
				b := make([]byte, i)
				what := func() string { return fmt.Sprintf("len=%d", i) }
				o := run(c, i, "NewQRLDescriptorFromBytes", true, what, func() string { return fmt.Sprint(xmss.NewQRLDescriptorFromBytes(b).GetHeight()) })
				o2 := run(c, i, "LegacyQRLDescriptorFromBytes", true, what, func() string { return fmt.Sprint(xmss.LegacyQRLDescriptorFromBytes(b).GetHeight()) })
				c.Eval(2)
				c.Nontrivial(1)
				c.Outcome(o + "|" + o2)
			}
		}})
	// --- Dilithium
	var dk *dilithium.Dilithium
	var dpk [dilithium.CryptoPublicKeyBytes]byte
	var dsm []byte
	initD := func(vseed int64) {
		if dk != nil {
			return
		}
		dk, _ = dilithium.NewDilithiumFromSeed(seeds.Seed48(4, vseed))
		dpk = dk.GetPK()
		dsm, _ = dk.Seal([]byte("c14 dilithium message"))
	}
	const CB = dilithium.CryptoBytes
	ck.Domains = append(ck.Domains, &drv.Domain{Name: "dilithium-open-lengths", Size: (CB + 301) * 4, Chunk: 128, Desc: "Open on every sealed length 0..4595+300 x 4 fills (00, FF, 5A, valid sealed bytes): never panics, nil unless valid",
		Run: func(c *drv.Ctx, lo, hi int64) {
			initD(c.Seed)
			for i := lo; i < hi; i++ {
				c.At(i)
				l, fill := int(i%(CB+301)), int(i/(CB+301))
				valid := append(append([]byte(nil), dsm...), make([]byte, 400)...)
				sm := fillBytes(l, fill, valid)
				s0 := append([]byte(nil), sm...)
				pk := dpk
				what := func() string { return fmt.Sprintf("len(sm)=%d fill=%d", l, fill) }
				o := run(c, i, "dilithium.Open", false, what, func() string { return fmt.Sprint(dilithium.Open(sm, &pk) != nil) })
				if !bytes.Equal(sm, s0) || pk != dpk {
					c.Fail(i, "dilithium.Open:modified-caller-buffers", map[string]any{"input": what()})
				}
				c.Eval(1)
				if l >= CB {
					c.Nontrivial(1)
				}
				c.Outcome(o)
				if l == len(dsm) && fill == 3 {
					c.Sample(map[string]any{"input": what(), "outcome": o})
				}
			}
		}})
	// every case hashes (or, before the fix, should have hashed) 4 GiB: one chunk, i.e. one worker, one case at a time
	giantLens := []uint64{1<<32 - 128, 1<<32 - 1, 1<<32 + 1, 1<<32 - 129, 1<<32 - 97, 1<<32 - 96, 1<<32 - 40, 1 << 32}
	nGiantQuick := int64(1)
	ck.Domains = append(ck.Domains, &drv.Domain{Name: "xmss-giant-message-lengths", Size: int64(len(giantLens)), Chunk: int64(len(giantLens)),
		Desc: "xmss.Verify with a well-sized signature and a message of 2^32-128 (thorough: eight lengths 2^32-129 .. 2^32+1) zero bytes (read-only no-reserve mapping; the lengths around which type || key || message overflows a 32-bit length): a result or an explicit refusal, never a runtime fault",
		Run: func(c *drv.Ctx, lo, hi int64) {
			initX(c.Seed)
			for i := lo; i < hi; i++ {
				c.At(i)
				if c.Tier != "thorough" && i >= nGiantQuick {
					continue // quick: 2^32-128
				}
				giant, release := drv.GiantZeros(giantLens[i])
				if giant == nil {
					c.Cap("a 4 GiB no-reserve mapping was refused: xmss-giant-message-lengths skipped")
					c.Outcome("skipped")
					continue
				}
				pk := validXPK
				pk[0] = 0 // SHA-256: the fastest of the three on 4 GiB
				sig := append([]byte(nil), validXSig...)
				what := func() string { return fmt.Sprintf("len(msg)=%d (zero bytes) well-sized signature, pk of height 4 declaring SHA-256", giantLens[i]) }
				stop := make(chan struct{})
				go func() { // keep-alive: hashing 4 GiB takes seconds
					for {
						select {
						case <-stop:
							return
						case <-time.After(5 * time.Second):
							c.Tick()
						}
					}
				}()
				o := run(c, i, "xmss.Verify", true, what, func() string { return fmt.Sprint(xmss.Verify(giant, sig, pk)) })
				close(stop)
				release()
				c.Eval(1)
				c.Nontrivial(1)
				c.Outcome(o)
			}
		}})
	ck.Domains = append(ck.Domains, &drv.Domain{Name: "dilithium-spare-capacity", Size: 80, Chunk: 4,
		Desc: "dilithium.Open / Verify with the sealed message and the message as windows into larger caller buffers (guard bytes behind, capacity reaching into them), message lengths 0..39 x {as is, tampered}: the guard bytes and the windows are unchanged",
		Run: func(c *drv.Ctx, lo, hi int64) {
			initD(c.Seed)
			for i := lo; i < hi; i++ {
				c.At(i)
				ml, tamper := int(i/2), i%2 == 1
				buf := make([]byte, CB+ml+64)
				copy(buf, dsm[:CB])
				for k := CB; k < len(buf); k++ {
					buf[k] = byte(0xC0 + k%13)
				}
				if CB+ml == len(dsm) {
					copy(buf, dsm) // the genuine sealed message at its own length
				}
				if tamper {
					buf[40] ^= 1
				}
				b0 := append([]byte(nil), buf...)
				sm := buf[:CB+ml]
				pk := dpk
				what := func() string { return fmt.Sprintf("len(sm)=%d cap(sm)=%d tampered=%v", len(sm), cap(sm), tamper) }
				o := run(c, i, "dilithium.Open", false, what, func() string { return fmt.Sprint(dilithium.Open(sm, &pk) != nil) })
				var sg [CB]byte
				copy(sg[:], sm[:CB])
				o2 := run(c, i, "dilithium.Verify", false, what, func() string { return fmt.Sprint(dilithium.Verify(sm[CB:], sg, &pk)) })
				if !bytes.Equal(buf, b0) || pk != dpk {
					c.Fail(i, "dilithium.Open:modified-caller-buffers", map[string]any{"input": what()})
				}
				c.Eval(2)
				c.Nontrivial(2)
				c.Outcome(o + "/" + o2)
			}
		}})
	chal := chalcorpus.Load()
	ck.Domains = append(ck.Domains, &drv.Domain{Name: "dilithium-challenge-corpus", Size: int64(len(chal))*3 + 1, Chunk: 8,
		Desc: "Verify / Open on signatures whose challenge seed is one of the committed corpus seeds (the seeds, out of 2^30 enumerated, whose challenge sampler reads furthest into its XOF output: up to 40+ rejected positions) x z in {0, valid z, all-ones} with no hints: the sampler's refill / bounds logic never faults",
		Run: func(c *drv.Ctx, lo, hi int64) {
			initD(c.Seed)
			for i := lo; i < hi; i++ {
				c.At(i)
				if i == int64(len(chal))*3 {
					if len(chal) == 0 {
						c.Cap("challenge corpus missing")
					}
					c.Outcome("sentinel")
					continue
				}
				e, zk := chal[i/3], int(i%3)
				var sig [CB]byte
				copy(sig[:], dsm[:CB])
				copy(sig[:32], e.Bytes)
				switch zk {
				case 0:
					var zero refdil.Poly
					z := refdil.PackZ(&zero)
					for k := 0; k < refdil.L; k++ {
						copy(sig[32+k*len(z):], z)
					}
				case 2:
					for k := 32; k < CB-83; k++ {
						sig[k] = 0xFF
					}
				}
				for k := CB - 83; k < CB; k++ {
					sig[k] = 0
				}
				pk := dpk
				msg := []byte("challenge corpus")
				what := func() string {
					return fmt.Sprintf("challenge seed %s (reads %d XOF bytes) z-kind %d", e.Seed, e.Read, zk)
				}
				o := run(c, i, "dilithium.Verify", false, what, func() string { return fmt.Sprint(dilithium.Verify(msg, sig, &pk)) })
				sm := append(append([]byte(nil), sig[:]...), msg...)
				o2 := run(c, i, "dilithium.Open", false, what, func() string { return fmt.Sprint(dilithium.Open(sm, &pk) != nil) })
				c.Eval(2)
				c.Nontrivial(2)
				c.Max("xof_bytes_read_by_challenge_sampler", int64(e.Read))
				c.Outcome(o + "/" + o2)
			}
		}})
	ck.Domains = append(ck.Domains, &drv.Domain{Name: "dilithium-hint-bytes", Size: 83 * 256 * 2, Chunk: 256, Desc: "Verify and Open on a valid signature with every single-byte substitution in the 83-byte hint section x all 256 values (count bytes 76..255 included), with the real pk and an all-FF pk",
		Run: func(c *drv.Ctx, lo, hi int64) {
			initD(c.Seed)
			for i := lo; i < hi; i++ {
				c.At(i)
				pos, val, pkk := int(i/256%83), byte(i), int(i/256/83)
				sm := append([]byte(nil), dsm...)
				sm[CB-83+pos] = val
				pk := dpk
				if pkk == 1 {
					for k := range pk {
						pk[k] = 0xFF
					}
				}
				var sig [CB]byte
				copy(sig[:], sm)
				what := func() string { return fmt.Sprintf("hint byte %d := %02x pk=%d", pos, val, pkk) }
				o := run(c, i, "dilithium.Verify", false, what, func() string { return fmt.Sprint(dilithium.Verify(sm[CB:], sig, &pk)) })
				o2 := run(c, i, "dilithium.Open", false, what, func() string { return fmt.Sprint(dilithium.Open(sm, &pk) != nil) })
				if o != o2 {
					c.Fail(i, "dilithium.Verify-and-Open-disagree", map[string]any{"input": what(), "verify": o, "open": o2})
				}
				c.Eval(2)
				c.Nontrivial(1)
				c.Outcome(o)
			}
		}})
	ck.Domains = append(ck.Domains, &drv.Domain{Name: "dilithium-hint-structured", Size: 65536 * 3, Chunk: 2048,
		Desc: "Verify/Open on a valid signature whose hint section is rebuilt: index bytes strictly increasing (3 patterns: j, 3j mod 256 sorted, 255-74+j), first two count bytes over ALL 256x256 values, remaining count bytes continuing upwards (a decoder that follows the counts walks across the whole section)",
		Run: func(c *drv.Ctx, lo, hi int64) {
			initD(c.Seed)
			for i := lo; i < hi; i++ {
				if i%256 == 0 || i == lo {
					c.At(i)
				}
				c0, c1, pat := byte(i), byte(i>>8), int(i>>16)
				sm := append([]byte(nil), dsm...)
				hs := sm[CB-83 : CB]
				for j := 0; j < 75; j++ {
					switch pat {
					case 0:
						hs[j] = byte(j)
					case 1:
						hs[j] = byte(j * 3)
					default:
						hs[j] = byte(181 + j)
					}
				}
				hs[75], hs[76] = c0, c1
				v := int(c1)
				for r := 2; r < 8; r++ {
					if v < 255 {
						v++
					}
					hs[75+r] = byte(v)
				}
				var sig [CB]byte
				copy(sig[:], sm)
				pk := dpk
				what := func() string { return fmt.Sprintf("hint pattern %d counts %d,%d,..", pat, c0, c1) }
				o := run(c, i, "dilithium.Verify", false, what, func() string { return fmt.Sprint(dilithium.Verify(sm[CB:], sig, &pk)) })
				if i%64 == 0 {
					o2 := run(c, i, "dilithium.Open", false, what, func() string { return fmt.Sprint(dilithium.Open(sm, &pk) != nil) })
					if o != o2 {
						c.Fail(i, "dilithium.Verify-and-Open-disagree", map[string]any{"input": what(), "verify": o, "open": o2})
					}
				}
				c.Outcome(o)
			}
			c.Eval(hi - lo)
			c.Nontrivial(hi - lo)
		}})
	ck.Domains = append(ck.Domains, &drv.Domain{Name: "dilithium-fills", Size: 5 * 5 * 4, Chunk: 5, Desc: "Verify/Open with signature fills {00, FF, 5A, valid, valid with z all-ones} x pk fills {00, FF, 5A, real, real with t1 all-ones} x message lengths; IsValidDilithiumAddress / GetDilithiumAddressFromPK on the same fills",
		Run: func(c *drv.Ctx, lo, hi int64) {
			initD(c.Seed)
			for i := lo; i < hi; i++ {
				c.At(i)
				sf, pf, ml := int(i%5), int(i/5%5), []int{0, 1, 21, 5000}[i/25]
				var sig [CB]byte
				copy(sig[:], fillBytes(CB, sf%4, dsm))
				if sf == 4 {
					copy(sig[:], dsm)
					for k := 32; k < CB-83; k++ {
						sig[k] = 0xFF
					}
				}
				var pk [dilithium.CryptoPublicKeyBytes]byte
				copy(pk[:], fillBytes(len(pk), pf%4, dpk[:]))
				if pf == 4 {
					pk = dpk
					for k := 32; k < len(pk); k++ {
						pk[k] = 0xFF
					}
				}
				msg := make([]byte, ml)
				if ml == 21 {
					msg = []byte("c14 dilithium message")
				}
				what := func() string { return fmt.Sprintf("sigfill=%d pkfill=%d len(msg)=%d", sf, pf, ml) }
				s0, p0 := sig, pk
				o := run(c, i, "dilithium.Verify", false, what, func() string { return fmt.Sprint(dilithium.Verify(msg, sig, &pk)) })
				sm := append(append([]byte(nil), sig[:]...), msg...)
				o2 := run(c, i, "dilithium.Open", false, what, func() string { return fmt.Sprint(dilithium.Open(sm, &pk) != nil) })
				var a [20]byte
				copy(a[:], pk[:20])
				o3 := run(c, i, "IsValidDilithiumAddress", false, what, func() string { return fmt.Sprint(dilithium.IsValidDilithiumAddress(a)) })
				o4 := run(c, i, "GetDilithiumAddressFromPK", false, what, func() string { r := dilithium.GetDilithiumAddressFromPK(pk); return drv.Hex(r[:1]) })
				if sig != s0 || pk != p0 {
					c.Fail(i, "dilithium:modified-caller-buffers", map[string]any{"input": what()})
				}
				if o != o2 {
					c.Fail(i, "dilithium.Verify-and-Open-disagree", map[string]any{"input": what(), "verify": o, "open": o2})
				}
				c.Eval(4)
				c.Nontrivial(1)
				c.Outcome(o + "|" + o3 + "|" + o4)
				if sf == 3 && pf == 3 && ml == 21 {
					c.Sample(map[string]any{"input": what(), "verify": o})
				}
			}
		}})
	// --- mnemonics
	tokens := []string{qrl.WordList[1234], "zzzzzz", "", "Aback", "aback\t", "é", strings.Repeat("a", 10240)}
	nseq := int64(7 + 49 + 343 + 2401)
	ck.Domains = append(ck.Domains, &drv.Domain{Name: "mnemonic-token-sequences", Size: nseq * 2, Chunk: 100, Desc: "MnemonicToSeedBin / MnemonicToExtendedSeedBin on every token sequence of length 1..4 over {valid word, unknown, \"\", \"Aback\", \"aback\\t\", \"é\", 10 kB word}",
		Run: func(c *drv.Ctx, lo, hi int64) {
			for i := lo; i < hi; i++ {
				c.At(i)
				k, which := i%nseq, i/nseq
				var seq []string
				n, base := 1, int64(7)
				for k >= base {
					k -= base
					n++
					base *= 7
				}
				for t := 0; t < n; t++ {
					seq = append(seq, tokens[k%7])
					k /= 7
				}
				m := strings.Join(seq, " ")
				what := func() string {
					if len(m) > 200 {
						return fmt.Sprintf("%d tokens, %d bytes", n, len(m))
					}
					return fmt.Sprintf("%q", m)
				}
				var o string
				if which == 0 {
					o = run(c, i, "MnemonicToSeedBin", true, what, func() string { r := misc.MnemonicToSeedBin(m); return drv.Hex(r[:4]) })
				} else {
					o = run(c, i, "MnemonicToExtendedSeedBin", true, what, func() string { r := misc.MnemonicToExtendedSeedBin(m); return drv.Hex(r[:4]) })
				}
				c.Eval(1)
				c.Nontrivial(1)
				c.Outcome(o)
				if i == 60 {
					c.Sample(map[string]any{"input": what(), "outcome": o})
				}
			}
		}})
	ck.Domains = append(ck.Domains, &drv.Domain{Name: "mnemonic-phrase-deviations", Size: 11 * 40 * 7 * 2, Chunk: 280, Desc: "phrases of 30..40 valid words with one token replaced (each of the 7 tokens) at every position, both decoders; plus 0 / 1000 / 100000-word phrases",
		Run: func(c *drv.Ctx, lo, hi int64) {
			for i := lo; i < hi; i++ {
				c.At(i)
				tk, pos, cnt, which := int(i%7), int(i/7%40), 30+int(i/280%11), i/3080
				if pos >= cnt {
					continue
				}
				ws := make([]string, cnt)
				for g := range ws {
					ws[g] = qrl.WordList[(g*613+7)&4095]
				}
				ws[pos] = tokens[tk]
				m := strings.Join(ws, " ")
				what := func() string { return fmt.Sprintf("%d words, token %d at position %d", cnt, tk, pos) }
				var o string
				if which == 0 {
					o = run(c, i, "MnemonicToSeedBin", true, what, func() string { r := misc.MnemonicToSeedBin(m); return drv.Hex(r[:4]) })
				} else {
					o = run(c, i, "MnemonicToExtendedSeedBin", true, what, func() string { r := misc.MnemonicToExtendedSeedBin(m); return drv.Hex(r[:4]) })
				}
				c.Eval(1)
				c.Nontrivial(1)
				c.Outcome(o)
			}
		}})
	ck.Domains = append(ck.Domains, &drv.Domain{Name: "mnemonic-extreme-lengths", Size: 8, Chunk: 1, Desc: "empty string, 1000 / 100000 / 100001 valid words, 1 MB of spaces, both decoders",
		Run: func(c *drv.Ctx, lo, hi int64) {
			for i := lo; i < hi; i++ {
				c.At(i)
				var m string
				switch i / 2 {
				case 0:
					m = ""
				case 1:
					m = strings.TrimSpace(strings.Repeat("aback ", 1000))
				case 2:
					m = strings.TrimSpace(strings.Repeat("zone ", 100000+int(i%2)))
				case 3:
					m = strings.Repeat(" ", 1<<20)
				}
				what := func() string { return fmt.Sprintf("%d bytes", len(m)) }
				var o string
				if i%2 == 0 {
					o = run(c, i, "MnemonicToSeedBin", true, what, func() string { r := misc.MnemonicToSeedBin(m); return drv.Hex(r[:4]) })
				} else {
					o = run(c, i, "MnemonicToExtendedSeedBin", true, what, func() string { r := misc.MnemonicToExtendedSeedBin(m); return drv.Hex(r[:4]) })
				}
				c.Eval(1)
				c.Nontrivial(1)
				c.Outcome(o)
			}
		}})
	nfirst := int64(len(firstCases()))
	ck.Domains = append(ck.Domains, &drv.Domain{Name: "first-call", Size: nfirst, Chunk: 2, Desc: "each entry point once as the FIRST library call of a fresh process (inputs built by the reference models, no library call before): zero-valued caches / lazily built tables must not turn untrusted input into a fault; valid inputs give the valid answer",
		Run: func(c *drv.Ctx, lo, hi int64) {
			self, _ := os.Executable()
			fcs := firstCases()
			for i := lo; i < hi; i++ {
				c.At(i)
				cmd := exec.Command(self)
				cmd.Env = append(os.Environ(), fmt.Sprintf("VERIF_C14_FIRST=%d", i))
				var eb bytes.Buffer
				cmd.Stderr = &eb
				out, err := cmd.Output()
				o := strings.TrimSpace(string(out))
				c.Eval(1)
				c.Nontrivial(1)
				c.Outcome(strings.SplitN(o, ":", 2)[0])
				if (err != nil || o == "") && !strings.Contains(eb.String(), "go-qrllib") {
					c.Cap("a first-call process could not be run (infrastructure): " + fmt.Sprint(err))
					continue
				}
				if err != nil || o == "" {
					st := eb.String()
					if len(st) > 1500 {
						st = st[:1500]
					}
					c.Fail(i, "first-call:process-died:"+fcs[i].name, map[string]any{"case": fcs[i].name, "err": fmt.Sprint(err), "stderr": st})
					continue
				}
				if strings.HasPrefix(o, "panic-runtime") || strings.HasPrefix(o, "panic-other") {
					c.Fail(i, "first-call:runtime-fault:"+fcs[i].name, map[string]any{"case": fcs[i].name, "observed": o})
					continue
				}
				switch {
				case fcs[i].want == "refused":
					if !strings.HasPrefix(o, "panic-string:") {
						c.Fail(i, "first-call:expected-refusal:"+fcs[i].name, map[string]any{"case": fcs[i].name, "observed": o})
					}
				case fcs[i].want != "" && o != fcs[i].want:
					c.Fail(i, "first-call:wrong-answer:"+fcs[i].name, map[string]any{"case": fcs[i].name, "expected": fcs[i].want, "observed": o})
				}
				if i == 2 {
					c.Sample(map[string]any{"case": fcs[i].name, "outcome": o})
				}
			}
		}})
	drv.Main(ck)
}
