// C15 — stateless operations are safe to run concurrently and history-free.
// Engine E2:
//
//	(1) "pairs"/"triples": every pair / selected triples of operations on managed threads in ONE process
//	    (steady state: whatever lazy initialisation exists has happened), all interleavings at the
//	    instrumented conflicting accesses and lock operations with <= 2 preemptions;
//	(2) "fresh-pairs": every pair again, but EVERY execution runs in a FRESH process whose first library
//	    calls are the two operations (first-use / lazy-initialisation interleavings; its bound-0 pass is
//	    also every 2-operation history in a fresh process);
//	(3) "histories-3" (thorough): every sequential history of length 3, each in a fresh process;
//	(4) "race-pass": every pair free-running under the race detector, each pair in its own fresh process
//	    of a separate -race build.
//
// Oracle: every call's result equals the result of the same call run alone in a fresh process;
// shared input buffers unchanged; no DATA RACE. Fixtures are computed by a separate process and loaded
// from a file, so that a scenario process makes no library call before its scenario starts.
package main

import (
	"bytes"
	"crypto/sha256"
	"encoding/hex"
	"encoding/json"
	"fmt"
	"os"
	"os/exec"
	"runtime"
	"strings"
	"sync"
	"time"

	"github.com/theQRL/go-qrllib/common"
	"github.com/theQRL/go-qrllib/dilithium"
	"github.com/theQRL/go-qrllib/misc"
	"github.com/theQRL/go-qrllib/qrllib-js/dilithiumjs"
	"github.com/theQRL/go-qrllib/qrllib-js/xmssjs"
	"github.com/theQRL/go-qrllib/verifcanary"
	vs "github.com/theQRL/go-qrllib/verifsched"
	"github.com/theQRL/go-qrllib/xmss"
	"verifmc/drv"
	"verifmc/e2"
	"verifmc/seeds"
)

type op struct {
	name string
	f    func() string
}

var ops []op

// Fixtures: computed once by a separate process, deliberately SHARED between threads (same backing arrays).
type Fixtures struct {
	XMsg, XSig, XBad, DMsg, DSM []byte
	XPK                         [67]byte
	DPK                         [dilithium.CryptoPublicKeyBytes]byte
	DSig                        [dilithium.CryptoBytes]byte
	SeedA, SeedD                [48]byte
	ESeedA                      [51]byte
	MnemA, MnemE                string
	LegacyA                     [39]byte
	AddrX, AddrD                [20]byte
	Solo                        map[string]string
}

var fx Fixtures

func computeFixtures() {
	vseed := int64(0)
	k := xmss.NewXMSSFromSeed(seeds.Seed48(3, vseed), 4, xmss.SHAKE_128, common.SHA256_2X)
	k.SetIndex(5)
	fx.XMsg = []byte("c15 xmss message")
	fx.XSig, _ = k.Sign(fx.XMsg)
	fx.XBad = append([]byte(nil), fx.XSig...)
	fx.XBad[100] ^= 4
	fx.XPK = k.GetPK()
	fx.AddrX = k.GetAddress()
	fx.LegacyA = k.GetLegacyAddress()
	fx.SeedD = seeds.Seed48(4, vseed)
	d, _ := dilithium.NewDilithiumFromSeed(fx.SeedD)
	fx.DPK = d.GetPK()
	fx.DMsg = []byte("c15 dilithium message")
	fx.DSig, _ = d.Sign(fx.DMsg)
	fx.DSM, _ = d.Seal(fx.DMsg)
	fx.AddrD = d.GetAddress()
	fx.SeedA = seeds.Seed48(5, vseed)
	copy(fx.ESeedA[:], []byte{1, 2, 0})
	copy(fx.ESeedA[3:], fx.SeedA[:])
	fx.MnemA = misc.SeedBinToMnemonic(fx.SeedA)
	fx.MnemE = misc.ExtendedSeedBinToMnemonic(fx.ESeedA)
}

var (
	dKeyOnce sync.Once
	dKeyObj  *dilithium.Dilithium
)

// dKey is the SHARED Dilithium key object; it has to be built with a library call, which happens
// before the scenario starts only for scenarios that use it (see prepare).
func dKey() *dilithium.Dilithium {
	dKeyOnce.Do(func() { dKeyObj, _ = dilithium.NewDilithiumFromSeed(fx.SeedD) })
	return dKeyObj
}

func digest(parts ...any) string {
	h := sha256.New()
	for _, p := range parts {
		fmt.Fprintf(h, "%v|", p)
	}
	return hex.EncodeToString(h.Sum(nil)[:8])
}

func call(f func() string) string {
	var r string
	o := drv.Call(func() { r = f() })
	if o != "ok" {
		return o
	}
	return r
}

func buildOps() {
	if ops != nil {
		return
	}
	xMsg, xSig, xBad, xPK := fx.XMsg, fx.XSig, fx.XBad, fx.XPK
	dMsg, dSM, dPK, dSig := fx.DMsg, fx.DSM, fx.DPK, fx.DSig
	seedA, eseedA, mnemA, mnemE := fx.SeedA, fx.ESeedA, fx.MnemA, fx.MnemE
	addrX, addrD, legacyA := fx.AddrX, fx.AddrD, fx.LegacyA
	hexSig, hexPK := "0x"+hex.EncodeToString(dSig[:]), hex.EncodeToString(dPK[:])
	hexXSig, hexXPK := hex.EncodeToString(xSig), "0x"+hex.EncodeToString(xPK[:])
	dPK2 := dPK
	dPK2[40] ^= 0x10 // same rho, different t1
	xPK2 := xPK
	xPK2[50] ^= 1 // same descriptor and root, different public seed
	xPK3 := xPK
	xPK3[10] ^= 1 // same descriptor, different root
	dMsg2 := append([]byte(nil), dMsg...)
	dMsg2[0] ^= 1
	addrD2 := addrD
	addrD2[19] ^= 1
	dSigNoHints := dSig
	for i := len(dSigNoHints) - 83; i < len(dSigNoHints); i++ {
		dSigNoHints[i] = 0
	}
	dSigLastRowEmpty := dSig
	{
		hs := dSigLastRowEmpty[len(dSigLastRowEmpty)-83:]
		for j := int(hs[75+6]); j < 75; j++ {
			hs[j] = 0
		}
		hs[75+7] = hs[75+6]
	}
	xSigIdx := append([]byte(nil), xSig...)
	xSigIdx[3] = 21 // index field beyond the last leaf of a height-4 tree
	blobW4 := make([]byte, 4+32+133*32+4*32)
	blobW256 := make([]byte, 4+32+34*32+4*32)
	ops = []op{
		{"xmss.Verify(valid)", func() string { return fmt.Sprint(xmss.Verify(xMsg, xSig, xPK)) }},
		{"xmss.Verify(tampered)", func() string { return fmt.Sprint(xmss.Verify(xMsg, xBad, xPK)) }},
		{"xmss.VerifyWithCustomWOTSParamW(16)", func() string { return fmt.Sprint(xmss.VerifyWithCustomWOTSParamW(xMsg, xSig, xPK, 16)) }},
		{"dilithium.Verify", func() string { return fmt.Sprint(dilithium.Verify(dMsg, dSig, &dPK)) }},
		{"dilithium.Open", func() string { return digest(dilithium.Open(dSM, &dPK)) }},
		{"sharedKey.Sign", func() string { s, err := dKey().Sign(dMsg); return digest(s, err) }},
		{"sharedKey.Seal", func() string { s, err := dKey().Seal([]byte("another message")); return digest(s, err) }},
		{"GetXMSSAddressFromPK", func() string { return digest(xmss.GetXMSSAddressFromPK(xPK)) }},
		{"GetLegacyXMSSAddressFromPK", func() string { return digest(xmss.GetLegacyXMSSAddressFromPK(xPK)) }},
		{"GetDilithiumAddressFromPK", func() string { return digest(dilithium.GetDilithiumAddressFromPK(dPK)) }},
		{"IsValidXMSSAddress", func() string { return fmt.Sprint(xmss.IsValidXMSSAddress(addrX), xmss.IsValidXMSSAddress(addrD)) }},
		{"IsValidLegacyXMSSAddress", func() string { return fmt.Sprint(xmss.IsValidLegacyXMSSAddress(legacyA)) }},
		{"IsValidDilithiumAddress", func() string {
			return fmt.Sprint(dilithium.IsValidDilithiumAddress(addrD), dilithium.IsValidDilithiumAddress(addrX))
		}},
		{"SeedBinToMnemonic", func() string { return digest(misc.SeedBinToMnemonic(seedA)) }},
		{"ExtendedSeedBinToMnemonic", func() string { return digest(misc.ExtendedSeedBinToMnemonic(eseedA)) }},
		{"MnemonicToSeedBin", func() string { return digest(misc.MnemonicToSeedBin(mnemA)) }},
		{"MnemonicToExtendedSeedBin", func() string { return digest(misc.MnemonicToExtendedSeedBin(mnemE)) }},
		{"MnemonicToSeedBin(invalid)", func() string { return digest(misc.MnemonicToSeedBin(mnemA + " zzz")) }},
		{"descriptor", func() string {
			d := xmss.NewQRLDescriptorFromExtendedPK(&xPK)
			return digest(d.GetBytes(), xmss.NewQRLDescriptor(6, xmss.SHA2_256, common.XMSSSig, common.SHA256_2X).GetBytes())
		}},
		{"NewDilithiumFromSeed+Sign", func() string {
			d, err := dilithium.NewDilithiumFromSeed(seedA)
			if err != nil {
				return "err"
			}
			s, _ := d.Sign(dMsg)
			return digest(d.GetPK(), s)
		}},
		{"privateXMSS(new,sign,setindex,sign)", func() string {
			k := xmss.NewXMSSFromSeed(seedA, 4, xmss.SHA2_256, common.SHA256_2X)
			s1, _ := k.Sign(xMsg)
			k.SetIndex(7)
			s2, _ := k.Sign(xMsg)
			return digest(k.GetPK(), s1, s2, k.GetIndex(), xmss.Verify(xMsg, s2, k.GetPK()))
		}},
		{"dilithiumjs.DilithiumVerify", func() string { return fmt.Sprint(dilithiumjs.DilithiumVerify(dMsg, hexSig, hexPK)) }},
		{"xmssjs.XMSSVerify", func() string { return fmt.Sprint(xmssjs.XMSSVerify(string(xMsg), hexXSig, hexXPK)) }},
		// related-input variants: same call with an input that shares a prefix / a component with the fixture
		// (a cache keyed on part of its input answers these from the wrong entry)
		{"dilithium.Verify(pk: same rho, t1 changed)", func() string { return fmt.Sprint(dilithium.Verify(dMsg, dSig, &dPK2)) }},
		{"dilithium.Verify(other message)", func() string { return fmt.Sprint(dilithium.Verify(dMsg2, dSig, &dPK)) }},
		{"dilithium.Open(pk: same rho, t1 changed)", func() string { return digest(dilithium.Open(dSM, &dPK2)) }},
		{"xmss.Verify(pk: seed changed)", func() string { return fmt.Sprint(xmss.Verify(xMsg, xSig, xPK2)) }},
		{"xmss.Verify(other message)", func() string { return fmt.Sprint(xmss.Verify(dMsg, xSig, xPK)) }},
		{"GetDilithiumAddressFromPK(same rho, t1 changed)", func() string { return digest(dilithium.GetDilithiumAddressFromPK(dPK2)) }},
		{"GetXMSSAddressFromPK(root changed)", func() string {
			return digest(xmss.GetXMSSAddressFromPK(xPK3), xmss.GetLegacyXMSSAddressFromPK(xPK3))
		}},
		{"dilithiumjs.DilithiumVerify(other message, same signature)", func() string { return fmt.Sprint(dilithiumjs.DilithiumVerify(dMsg2, hexSig, hexPK)) }},
		{"dilithiumjs.GetDilithiumAddressFromPK/IsValid", func() string {
			return digest(dilithiumjs.GetDilithiumAddressFromPK(hexPK), dilithiumjs.IsValidDilithiumAddress(hex.EncodeToString(addrD2[:])), xmssjs.IsValidXMSSAddress(hex.EncodeToString(addrX[:])), xmssjs.GetXMSSAddressFromPK(hexXPK))
		}},
		// the valid signature with its hints removed (a reused verification workspace that is not fully reset accepts these after the valid one)
		{"dilithium.Verify(valid signature, hint section zeroed)", func() string { return fmt.Sprint(dilithium.Verify(dMsg, dSigNoHints, &dPK)) }},
		{"dilithium.Verify(valid signature, last hint row emptied)", func() string { return fmt.Sprint(dilithium.Verify(dMsg, dSigLastRowEmpty, &dPK)) }},
		// getters of the SHARED key object (lazily memoised values live here)
		{"sharedKey.getters", func() string {
			d := dKey()
			return digest(d.GetAddress(), d.GetPK(), d.GetMnemonic(), d.GetHexSeed(), d.GetSeed())
		}},
		// custom-w verification that exits early (signature sized for another height; invalid size -> explicit refusal)
		{"xmss.VerifyWithCustomWOTSParamW(256, blob sized for height 6)", func() string {
			return fmt.Sprint(xmss.VerifyWithCustomWOTSParamW(xMsg, make([]byte, 4+32+34*32+6*32), xPK, 256))
		}},
		{"xmss.VerifyWithCustomWOTSParamW(4, invalid size)", func() string {
			return fmt.Sprint(xmss.VerifyWithCustomWOTSParamW(xMsg, make([]byte, 4+32+133*32+4*32+1), xPK, 4))
		}},
		// same entry point with other parameters at the same height (a parameter cache keyed on part of the parameters)
		{"xmss.VerifyWithCustomWOTSParamW(4, sized blob)", func() string { return fmt.Sprint(xmss.VerifyWithCustomWOTSParamW(xMsg, blobW4, xPK, 4)) }},
		{"xmss.VerifyWithCustomWOTSParamW(256, sized blob)", func() string { return fmt.Sprint(xmss.VerifyWithCustomWOTSParamW(xMsg, blobW256, xPK, 256)) }},
		// a signature whose index field names a leaf the tree does not have (an early-exit path of the verifier)
		{"xmss.Verify(index field out of range)", func() string { return fmt.Sprint(xmss.Verify(xMsg, xSigIdx, xPK)) }},
	}
	for i := range ops {
		f := ops[i].f
		ops[i].f = func() string { return call(f) }
	}
}

// prepare builds the shared key object if (and only if) the scenario uses it.
func prepare(idx []int) {
	for _, i := range idx {
		if strings.HasPrefix(ops[i].name, "sharedKey.") {
			dKey()
		}
	}
}

var _ = prepare

// fixtureDigest detects modification of the shared input buffers.
func fixtureDigest() string {
	return digest(fx.XMsg, fx.XSig, fx.XBad, fx.XPK, fx.DPK, fx.DMsg, fx.DSM, fx.DSig, fx.SeedA, fx.ESeedA, fx.MnemA, fx.MnemE, fx.LegacyA, fx.AddrX, fx.AddrD)
}

var canaryOps = []op{
	{"canary.RacyLookup", func() string { return fmt.Sprint(verifcanary.RacyLookup(3)) }},
	{"canary.ToctouLookup", func() string { return fmt.Sprint(verifcanary.ToctouLookup(3)) }},
	{"canary.GoodLookup", func() string { return fmt.Sprint(verifcanary.GoodLookup(3)) }},
}

func self() string { s, _ := os.Executable(); return s }

// subprocess protocol -------------------------------------------------------------------------

type execReq struct {
	Ops      []int    `json:"ops"`
	Prefix   []int    `json:"prefix"`
	Conflict []string `json:"conflict"`
	Seq      bool     `json:"seq"`             // run the ops sequentially on one thread (histories / solo)
	Prior    []int    `json:"prior,omitempty"` // operations run to completion, one after the other, before the scenario starts
}

type execResp struct {
	Choices    []int              `json:"choices"`
	Pts        []e2.Pt            `json:"pts"`
	Results    []string           `json:"results"`
	Deadlock   bool               `json:"deadlock"`
	Horizon    bool               `json:"horizon"`
	Acc        map[string][]uint8 `json:"acc"`
	PointsSeen int64              `json:"points_seen"`
	Fixtures   string             `json:"fixtures"`
	Prior      []string           `json:"prior,omitempty"`
}

func childExec(reqJSON string) {
	var rq execReq
	if err := json.Unmarshal([]byte(reqJSON), &rq); err != nil {
		fmt.Fprintln(os.Stderr, "bad exec request:", err)
		os.Exit(2)
	}
	loadFixtures()
	buildOps()
	var resp execResp
	var prior []string
	if rq.Seq {
		for _, i := range rq.Ops {
			if strings.HasPrefix(ops[i].name, "sharedKey.") {
				dKey()
			}
			resp.Results = append(resp.Results, ops[i].f())
		}
	} else {
		prepare(rq.Ops)
		prepare(rq.Prior)
		for _, i := range rq.Prior {
			prior = append(prior, ops[i].f())
		}
		sc := &e2.Scenario{Reset: func() {}}
		for _, i := range rq.Ops {
			sc.Bodies = append(sc.Bodies, ops[i].f)
		}
		x := e2.InProcess(sc)(rq.Prefix, rq.Conflict)
		if x.Diverged {
			fmt.Fprintln(os.Stderr, "replay divergence in a fresh process: the execution is not deterministic")
			os.Exit(3)
		}
		resp = execResp{Choices: x.Choices, Pts: x.Pts, Results: x.Results, Deadlock: x.Deadlock, Horizon: x.Horizon, Acc: x.Acc, PointsSeen: x.PointsSeen}
	}
	resp.Fixtures = fixtureDigest()
	resp.Prior = prior
	b, _ := json.Marshal(&resp)
	fmt.Println(string(b))
}

func spawn(rq execReq) (*execResp, string) {
	b, _ := json.Marshal(&rq)
	cmd := exec.Command(self())
	cmd.Env = append(os.Environ(), "VERIF_C15_EXEC="+string(b))
	var eb bytes.Buffer
	cmd.Stderr = &eb
	out, err := cmd.Output()
	if err != nil {
		return nil, fmt.Sprintf("%v: %s", err, tail(eb.String(), 1500))
	}
	var r execResp
	if err := json.Unmarshal(bytes.TrimSpace(out), &r); err != nil {
		return nil, "unparsable child output: " + tail(string(out), 300)
	}
	return &r, ""
}

// freshBackend: every execution in a fresh process.
func freshBackend(idx []int, fixtureBad *bool) e2.Backend {
	return func(prefix []int, conflict []string) *e2.Exec {
		r, errs := spawn(execReq{Ops: idx, Prefix: prefix, Conflict: conflict})
		if r == nil {
			return &e2.Exec{Err: errs}
		}
		if r.Fixtures != fx.Solo["fixtures"] {
			*fixtureBad = true
		}
		return &e2.Exec{Choices: r.Choices, Pts: r.Pts, Results: r.Results, Deadlock: r.Deadlock, Horizon: r.Horizon, Acc: r.Acc, PointsSeen: r.PointsSeen}
	}
}

// priorBackend: every execution in a fresh process in which the prior operations ran (alone, to completion) first.
func priorBackend(prior, idx []int, fixtureBad *bool, priorBad *string) e2.Backend {
	return func(prefix []int, conflict []string) *e2.Exec {
		r, errs := spawn(execReq{Ops: idx, Prefix: prefix, Conflict: conflict, Prior: prior})
		if r == nil {
			return &e2.Exec{Err: errs}
		}
		if r.Fixtures != fx.Solo["fixtures"] {
			*fixtureBad = true
		}
		for k, p := range prior {
			if k < len(r.Prior) && r.Prior[k] != fx.Solo[ops[p].name] {
				*priorBad = fmt.Sprintf("%s: expected %s observed %s", ops[p].name, fx.Solo[ops[p].name], r.Prior[k])
			}
		}
		return &e2.Exec{Choices: r.Choices, Pts: r.Pts, Results: r.Results, Deadlock: r.Deadlock, Horizon: r.Horizon, Acc: r.Acc, PointsSeen: r.PointsSeen}
	}
}

func fixturesPath() string { return os.Getenv("VERIF_C15_FIXTURES") }

func loadFixtures() {
	if fx.Solo != nil {
		return
	}
	p := fixturesPath()
	b, err := os.ReadFile(p)
	if err != nil || json.Unmarshal(b, &fx) != nil || fx.Solo == nil {
		fmt.Fprintln(os.Stderr, "fixtures file missing or unreadable:", p, err)
		os.Exit(2)
	}
}

// makeFixtures (master only): one process computes the fixture bytes, then every operation runs alone in
// its own fresh process to give the solo results.
func makeFixtures(path string) {
	computeFixtures()
	fx.Solo = map[string]string{"fixtures": fixtureDigest()}
	b, _ := json.Marshal(&fx)
	os.WriteFile(path, b, 0o644)
	os.Setenv("VERIF_C15_FIXTURES", path)
	buildOps()
	var mu sync.Mutex
	var wg sync.WaitGroup
	sem := make(chan struct{}, 12)
	for i := range ops {
		wg.Add(1)
		go func(i int) {
			defer wg.Done()
			sem <- struct{}{}
			defer func() { <-sem }()
			r, errs := spawn(execReq{Ops: []int{i}, Seq: true})
			if r == nil || len(r.Results) != 1 {
				fmt.Fprintln(os.Stderr, "solo run failed:", ops[i].name, errs)
				os.Exit(2)
			}
			mu.Lock()
			fx.Solo[ops[i].name] = r.Results[0]
			mu.Unlock()
		}(i)
	}
	wg.Wait()
	b, _ = json.Marshal(&fx)
	os.WriteFile(path, b, 0o644)
}

func pairOf(k int, n int) (int, int) { // unordered pairs incl. (i,i)
	for i := 0; i < n; i++ {
		for j := i; j < n; j++ {
			if k == 0 {
				return i, j
			}
			k--
		}
	}
	panic("pair index")
}

func namesOf(idx []int) (string, []string) {
	var exp, names []string
	for _, i := range idx {
		exp = append(exp, fx.Solo[ops[i].name])
		names = append(names, ops[i].name)
	}
	return strings.Join(names, " || "), exp
}

var cappedSoFar int
var scenarioPrefix string

func exploreCase(c *drv.Ctx, i int64, kind string, idx []int, be e2.Backend, bound int) *e2.Stats {
	e2.Progress = c.Tick
	name, exp := namesOf(idx)
	name = scenarioPrefix + name
	budget := 15 * time.Second
	if c.Tier == "thorough" {
		budget = 120 * time.Second
	}
	if cappedSoFar >= 3 {
		budget = 2 * time.Second // this tree makes every scenario expensive: keep the run bounded
	}
	st, v := e2.Explore(name, be, bound, exp, 20000, budget)
	if st.InfraErr != "" {
		c.Cap("an execution could not be run (infrastructure): " + tail(st.InfraErr, 200))
	} else if st.Diverged {
		c.Cap("in-process replay diverged: library state persists between executions of one process (such scenarios are decided by fresh-pairs, where every execution starts a new process)")
	} else if st.Capped {
		cappedSoFar++
		c.Cap(fmt.Sprintf("scenario time budget reached (bound completed: %d)", st.BoundCompleted))
	}
	c.SetAdd("bounds_completed", fmt.Sprint(st.BoundCompleted))
	c.Eval(st.Executions)
	c.Count("schedules", st.Executions)
	c.Count("decision_points", st.DecisionPoints)
	c.Count("branching_points", st.Branching)
	c.Count("preemptive_choices", st.Preemptive)
	c.Count("conflict_set_restarts", int64(st.Restarts))
	c.Max("distinct_outcome_vectors_in_one_scenario", int64(len(st.Outcomes)))
	c.Max("points_executed", st.PointsSeen)
	for _, n := range st.ConflictVars {
		c.SetAdd("conflict_vars", n)
	}
	if st.Preemptive > 0 {
		c.Nontrivial(1)
	}
	if v != nil {
		// determinism: replay the schedule twice, identical observations required
		r1 := e2.Replay(be, v.Choices, v.Conflict)
		r2 := e2.Replay(be, v.Choices, v.Conflict)
		if fmt.Sprint(r1.Results) != fmt.Sprint(v.Results) || fmt.Sprint(r2.Results) != fmt.Sprint(v.Results) {
			c.Fail(i, kind+":nondeterministic-replay(infrastructure):"+name, map[string]any{"scenario": name, "first": v.Results, "replay1": r1.Results, "replay2": r2.Results})
			return st
		}
		c.Fail(i, kind+":"+name, map[string]any{"scenario": name, "why": v.Why, "schedule_choices": v.Choices, "observed": v.Results, "expected_solo": v.Expected,
			"conflict_vars": v.Conflict, "preemption_bound": bound, "fresh_process_per_execution": kind == "first-use"})
	}
	return st
}

func raceRun(sel string) {
	// free-running pass in the -race build: "pair:<a>,<b>:<reps>" | "canary:<k>"
	loadFixtures()
	buildOps()
	runtime.GOMAXPROCS(8)
	runSet := func(fs []func() string, reps int) [][]string {
		var all [][]string
		for r := 0; r < reps; r++ {
			res := make([]string, len(fs))
			var wg sync.WaitGroup
			start := make(chan struct{})
			for t := range fs {
				wg.Add(1)
				go func(t int) {
					defer wg.Done()
					<-start
					res[t] = fs[t]()
				}(t)
			}
			close(start)
			wg.Wait()
			all = append(all, res)
		}
		return all
	}
	parts := strings.Split(sel, ":")
	switch parts[0] {
	case "canary":
		var k int
		fmt.Sscan(parts[1], &k)
		runSet([]func() string{canaryOps[k].f, canaryOps[k].f, canaryOps[k].f}, 20)
	case "pair", "after":
		var a, b, reps int
		if parts[0] == "after" {
			var p int
			fmt.Sscan(parts[1], &p)
			parts = parts[1:]
			prepare([]int{p})
			if r := ops[p].f(); r != fx.Solo[ops[p].name] {
				fmt.Printf("RESULT-DIFFERS prior op=%q expected=%s observed=%s\n", ops[p].name, fx.Solo[ops[p].name], r)
			}
		}
		fmt.Sscanf(parts[1], "%d,%d", &a, &b)
		fmt.Sscan(parts[2], &reps)
		prepare([]int{a, b})
		all := runSet([]func() string{ops[a].f, ops[b].f, ops[a].f, ops[b].f}, reps)
		for _, res := range all {
			for t, r := range res {
				want := fx.Solo[ops[[]int{a, b, a, b}[t]].name]
				if r != want {
					fmt.Printf("RESULT-DIFFERS goroutine=%d op=%q expected=%s observed=%s\n", t, ops[[]int{a, b, a, b}[t]].name, want, r)
				}
			}
		}
		fmt.Printf("RAN %s || %s\n", ops[a].name, ops[b].name)
	}
}

// sweeps: one call on many distinct inputs in one process (state that only shows after many different inputs:
// bounded caches, eviction, memo tables)
var sweepFamilies = []string{"GetDilithiumAddressFromPK", "GetXMSSAddressFromPK+Legacy", "IsValidAddress", "SeedBinToMnemonic", "MnemonicToSeedBin", "xmss.Verify(message j)", "dilithium.Verify(message j)", "dilithium.Verify(pk j)", "descriptor(bytes j)"}

func sweepCall(fam int, j int) string {
	jb := []byte{byte(j), byte(j >> 8), byte(j >> 16)}
	switch fam {
	case 0:
		pk := fx.DPK
		pk[40], pk[41], pk[900] = pk[40]^jb[0], pk[41]^jb[1], pk[900]^jb[0]
		return call(func() string { return digest(dilithium.GetDilithiumAddressFromPK(pk)) })
	case 1:
		pk := fx.XPK
		pk[10], pk[11], pk[60] = pk[10]^jb[0], pk[11]^jb[1], pk[60]^jb[0]
		return call(func() string { return digest(xmss.GetXMSSAddressFromPK(pk), xmss.GetLegacyXMSSAddressFromPK(pk)) })
	case 2:
		ad, ax := fx.AddrD, fx.AddrX
		ad[19], ad[18], ax[19], ax[18] = ad[19]^jb[0], ad[18]^jb[1], ax[19]^jb[0], ax[18]^jb[1]
		la := fx.LegacyA
		la[20] ^= jb[0]
		la[21] ^= jb[1]
		return call(func() string {
			return fmt.Sprint(dilithium.IsValidDilithiumAddress(ad), xmss.IsValidXMSSAddress(ax), xmss.IsValidLegacyXMSSAddress(la), dilithium.IsValidDilithiumAddress(ax), xmss.IsValidXMSSAddress(ad))
		})
	case 3:
		sd, es := fx.SeedA, fx.ESeedA
		sd[0], sd[1], sd[47] = sd[0]^jb[0], sd[1]^jb[1], sd[47]^jb[0]
		es[3], es[4], es[50] = es[3]^jb[0], es[4]^jb[1], es[50]^jb[0]
		return call(func() string { return digest(misc.SeedBinToMnemonic(sd), misc.ExtendedSeedBinToMnemonic(es)) })
	case 4:
		sd := fx.SeedA
		sd[0], sd[1], sd[47] = sd[0]^jb[0], sd[1]^jb[1], sd[47]^jb[0]
		m := misc.SeedBinToMnemonic(sd)
		return call(func() string { return digest(misc.MnemonicToSeedBin(m)) })
	case 5:
		m := append([]byte(nil), fx.XMsg...)
		m[0], m[1] = m[0]^jb[0], m[1]^jb[1]
		return call(func() string { return fmt.Sprint(xmss.Verify(m, fx.XSig, fx.XPK)) })
	case 6:
		m := append([]byte(nil), fx.DMsg...)
		m[0], m[1] = m[0]^jb[0], m[1]^jb[1]
		return call(func() string { return fmt.Sprint(dilithium.Verify(m, fx.DSig, &fx.DPK)) })
	case 7:
		pk := fx.DPK
		pk[40], pk[41] = pk[40]^jb[0], pk[41]^jb[1]
		return call(func() string { return fmt.Sprint(dilithium.Verify(fx.DMsg, fx.DSig, &pk)) })
	case 8:
		return call(func() string {
			d := xmss.NewQRLDescriptorFromBytes([]uint8{byte(j), byte(j >> 8), 0})
			return digest(d.GetBytes(), d.GetHeight(), d.GetHashFunction(), d.GetSignatureType(), d.GetAddrFormatType())
		})
	}
	return "?"
}

// sweepRun (child): "fam:n:order"; order fwd2 = inputs 0..n-1 twice, rev = n-1..0 once. Prints one JSON array per pass.
func sweepRun(sel string) {
	loadFixtures()
	var fam, n int
	var order string
	parts := strings.Split(sel, ":")
	fmt.Sscan(parts[0], &fam)
	fmt.Sscan(parts[1], &n)
	order = parts[2]
	var passes [][]string
	if order == "rev" {
		res := make([]string, n)
		for j := n - 1; j >= 0; j-- {
			res[j] = sweepCall(fam, j)
		}
		passes = append(passes, res)
	} else {
		for p := 0; p < 2; p++ {
			res := make([]string, n)
			for j := 0; j < n; j++ {
				res[j] = sweepCall(fam, j)
			}
			passes = append(passes, res)
		}
	}
	b, _ := json.Marshal(map[string]any{"passes": passes, "fixtures": fixtureDigest()})
	fmt.Println(string(b))
}

func sweepSpawn(sel string) ([][]string, string, string) {
	cmd := exec.Command(self())
	cmd.Env = append(os.Environ(), "VERIF_C15_SWEEP="+sel)
	var eb bytes.Buffer
	cmd.Stderr = &eb
	out, err := cmd.Output()
	if err != nil {
		return nil, "", fmt.Sprintf("%v: %s", err, tail(eb.String(), 1500))
	}
	var r struct {
		Passes   [][]string `json:"passes"`
		Fixtures string     `json:"fixtures"`
	}
	if err := json.Unmarshal(bytes.TrimSpace(out), &r); err != nil {
		return nil, "", "unparsable child output: " + tail(string(out), 300)
	}
	return r.Passes, r.Fixtures, ""
}

func main() {
	if s := os.Getenv("VERIF_C15_SWEEP"); s != "" {
		sweepRun(s)
		return
	}
	if s := os.Getenv("VERIF_C15_EXEC"); s != "" {
		childExec(s)
		return
	}
	if s := os.Getenv("VERIF_C15_RACE"); s != "" {
		raceRun(s)
		return
	}
	isMaster := true
	for _, a := range os.Args[1:] {
		if a == "-worker" || a == "-replay" {
			isMaster = false
		}
	}
	_, statErr := os.Stat(fixturesPath())
	if fixturesPath() == "" || isMaster || statErr != nil {
		p := fixturesPath()
		if p == "" {
			f, _ := os.CreateTemp("", "verif-c15-fixtures-*.json")
			p = f.Name()
			f.Close()
			defer os.Remove(p)
		}
		makeFixtures(p)
	}
	loadFixtures()
	buildOps()
	nops := len(ops)
	npairs := nops * (nops + 1) / 2
	ck := &drv.Check{Property: "C15", Level: "model_checking",
		Rule: fmt.Sprintf("controlled-scheduler exploration: every unordered pair of the %d operations (incl. an operation with itself) on 2 managed threads and selected triples on 3, all interleavings at instrumented conflicting accesses / lock operations with preemption bound 0,1,2 (conflict-set fix point), ", nops) +
			"once in a long-lived process (steady state) and once with EVERY execution in a fresh process whose first library calls are the scenario (first use / lazy initialisation; its bound-0 pass is every 2-operation history in a fresh process); every 3-operation history in a fresh process (thorough); " +
			"every pair free-running under the race detector, each in its own fresh process of a separate -race build; a built-in canary (racy lazy table, lock-protected check-then-act, correct sync.Once) instrumented by the same instrumenter. " +
			"oracle: result(call) == result of the same call alone in a fresh process; inputs unchanged; no DATA RACE. non-trivial = a scenario with at least one preemptive schedule, a history, or a race-pass pair",
		Assumptions: []string{"sequentially consistent interleavings at statement granularity; Go's weaker memory model is covered by requiring the same bodies to be race-free in the free-running -race pass (DRF => SC)",
			"shared-access instrumentation is syntactic (package-level variables, fields through *dilithium.Dilithium, one-level alias taint); writes through other aliases are still subject to the race pass",
			"<= 3 threads, <= 2 preemptions; globals inside x/crypto and the runtime are out of scope"}}
	ck.Domains = append(ck.Domains, &drv.Domain{Name: "canary", Size: 3, Chunk: 1, Desc: "built-in canary: RacyLookup and ToctouLookup MUST be reported by the explorer within preemption bound 2, GoodLookup (sync.Once) must not",
		Run: func(c *drv.Ctx, lo, hi int64) {
			for i := lo; i < hi; i++ {
				c.At(i)
				f := canaryOps[i].f
				sc := &e2.Scenario{Name: canaryOps[i].name + " x2", Reset: verifcanary.Reset, Bodies: []func() string{f, f}}
				verifcanary.Reset()
				want := f()
				st, v := e2.Explore(sc.Name, e2.InProcess(sc), 2, []string{want, want}, 200000, 0)
				c.Eval(st.Executions)
				c.Count("schedules", st.Executions)
				c.Count("preemptive_choices", st.Preemptive)
				c.Nontrivial(1)
				caught := v != nil
				c.Outcome(fmt.Sprintf("%s caught=%v", canaryOps[i].name, caught))
				if (i < 2) != caught {
					c.Fail(i, fmt.Sprintf("canary-%s-caught=%v(infrastructure)", canaryOps[i].name, caught), map[string]any{"meaning": "the explorer lost its ability to find (or to not find) a known interleaving bug", "schedules": st.Executions, "conflict_vars": st.ConflictVars})
				}
				smp := map[string]any{"scenario": sc.Name, "schedules": st.Executions, "caught": caught, "conflict_vars": st.ConflictVars}
				if v != nil {
					smp["schedule_choices"], smp["observed"] = v.Choices, v.Results
				}
				c.Sample(smp)
			}
		}})
	inproc := func(idx []int) e2.Backend {
		sc := &e2.Scenario{Reset: func() {}}
		for _, i := range idx {
			sc.Bodies = append(sc.Bodies, ops[i].f)
		}
		prepare(idx)
		return e2.InProcess(sc)
	}
	ck.Domains = append(ck.Domains, &drv.Domain{Name: "pairs", Size: int64(npairs), Chunk: 1, Desc: fmt.Sprintf("steady state: all %d unordered pairs of the %d operations on 2 managed threads in a long-lived process, preemption bound 0,1,2", npairs, nops),
		Run: func(c *drv.Ctx, lo, hi int64) {
			for i := lo; i < hi; i++ {
				c.At(i)
				if c.FailCount() >= 2 {
					c.Count("scenarios_skipped_after_failures", 1)
					continue
				}
				a, b := pairOf(int(i), nops)
				st := exploreCase(c, i, "interleaving", []int{a, b}, inproc([]int{a, b}), 2)
				if fixtureDigest() != fx.Solo["fixtures"] {
					c.Fail(i, "shared-input-buffers-modified", map[string]any{"scenario": ops[a].name + " || " + ops[b].name})
				}
				c.Outcome(fmt.Sprintf("outcomes=%d", len(st.Outcomes)))
				if i == 5 {
					c.Sample(map[string]any{"scenario": ops[a].name + " || " + ops[b].name, "schedules": st.Executions, "decision_points": st.DecisionPoints, "conflict_vars": st.ConflictVars})
				}
			}
		}})
	// triples: operations that touch the same package-level variable / shared object
	groups := [][]int{}
	byName := func(n string) int {
		for i, o := range ops {
			if o.name == n {
				return i
			}
		}
		panic(n)
	}
	mn := []int{byName("SeedBinToMnemonic"), byName("ExtendedSeedBinToMnemonic"), byName("MnemonicToSeedBin"), byName("MnemonicToExtendedSeedBin"), byName("MnemonicToSeedBin(invalid)")}
	dl := []int{byName("dilithium.Verify"), byName("dilithium.Open"), byName("sharedKey.Sign"), byName("sharedKey.Seal"), byName("NewDilithiumFromSeed+Sign"), byName("dilithiumjs.DilithiumVerify")}
	xm := []int{byName("xmss.Verify(valid)"), byName("xmss.Verify(tampered)"), byName("privateXMSS(new,sign,setindex,sign)"), byName("xmssjs.XMSSVerify"), byName("GetXMSSAddressFromPK")}
	for _, g := range [][]int{mn, dl, xm} {
		for a := 0; a < len(g); a++ {
			for b := a; b < len(g); b++ {
				for d := b; d < len(g); d++ {
					groups = append(groups, []int{g[a], g[b], g[d]})
				}
			}
		}
	}
	ck.Domains = append(ck.Domains, &drv.Domain{Name: "triples", Size: int64(len(groups)), Chunk: 1, Desc: "steady state: all multisets of 3 operations within each group that touches the same shared object (word list; zetas / shared Dilithium key; XMSS hashing) on 3 managed threads, preemption bound 0,1,2",
		Run: func(c *drv.Ctx, lo, hi int64) {
			for i := lo; i < hi; i++ {
				c.At(i)
				if c.FailCount() >= 2 {
					c.Count("scenarios_skipped_after_failures", 1)
					continue
				}
				st := exploreCase(c, i, "interleaving", groups[i], inproc(groups[i]), 2)
				c.Outcome(fmt.Sprintf("outcomes=%d", len(st.Outcomes)))
			}
		}})
	ck.Domains = append(ck.Domains, &drv.Domain{Name: "fresh-pairs", Size: int64(npairs), Chunk: 1,
		Desc: "first use: all pairs again with EVERY execution in a fresh process (the two operations are the first library calls of the process), preemption bound 0,1,2; the bound-0 pass runs both serial orders, i.e. every 2-operation history in a fresh process",
		Run: func(c *drv.Ctx, lo, hi int64) {
			for i := lo; i < hi; i++ {
				c.At(i)
				if c.FailCount() >= 3 {
					c.Count("scenarios_skipped_after_failures", 1)
					continue
				}
				a, b := pairOf(int(i), nops)
				bad := false
				st := exploreCase(c, i, "first-use", []int{a, b}, freshBackend([]int{a, b}, &bad), 2)
				if bad {
					c.Fail(i, "shared-input-buffers-modified", map[string]any{"scenario": ops[a].name + " || " + ops[b].name})
				}
				c.Outcome(fmt.Sprintf("outcomes=%d", len(st.Outcomes)))
				if i == 7 {
					c.Sample(map[string]any{"scenario": ops[a].name + " || " + ops[b].name, "fresh_process_executions": st.Executions, "conflict_vars": st.ConflictVars})
				}
			}
		}})
	ck.Domains = append(ck.Domains, &drv.Domain{Name: "fresh-triples", Tier: "t", Size: int64(len(groups)), Chunk: 1,
		Desc: "first use on 3 threads: the triples of each shared-object group with every execution in a fresh process (its bound-0 pass is every 3-operation ordering of the triple in a fresh process)",
		Run: func(c *drv.Ctx, lo, hi int64) {
			for i := lo; i < hi; i++ {
				c.At(i)
				if c.FailCount() >= 3 {
					c.Count("scenarios_skipped_after_failures", 1)
					continue
				}
				bad := false
				st := exploreCase(c, i, "first-use", groups[i], freshBackend(groups[i], &bad), 2)
				if bad {
					c.Fail(i, "shared-input-buffers-modified", nil)
				}
				c.Outcome(fmt.Sprintf("outcomes=%d", len(st.Outcomes)))
			}
		}})
	size3 := int64(nops) * int64(nops) * int64(nops)
	ck.Domains = append(ck.Domains, &drv.Domain{Name: "histories-3", Tier: "t", Size: size3, Chunk: 8, Desc: "every sequence of 3 operations on one thread, each sequence in a fresh process: every result equals the solo result",
		Run: func(c *drv.Ctx, lo, hi int64) {
			for i := lo; i < hi; i++ {
				c.At(i)
				idx := []int{int(i % int64(nops)), int(i / int64(nops) % int64(nops)), int(i / int64(nops) / int64(nops))}
				r, errs := spawn(execReq{Ops: idx, Seq: true})
				c.Eval(1)
				c.Nontrivial(1)
				name, exp := namesOf(idx)
				if r == nil || len(r.Results) != 3 {
					c.Fail(i, "history-process-failed", map[string]any{"sequence": name, "err": errs})
					continue
				}
				for t := range r.Results {
					if r.Results[t] != exp[t] {
						c.Fail(i, "history-dependent-result:"+ops[idx[t]].name, map[string]any{"sequence": strings.ReplaceAll(name, " || ", " ; "), "position": t, "expected_solo": exp[t], "observed": r.Results[t]})
						break
					}
				}
				c.Outcome("equal")
			}
		}})
	// race pass (separate -race build, free-running), every pair in its own fresh process
	raceSel := func(c *drv.Ctx, i int64, sel string, canary int) {
		bin := os.Getenv("VERIF_RACE_BIN")
		cmd := exec.Command(bin)
		cmd.Env = append(os.Environ(), "VERIF_C15_RACE="+sel, "GORACE=halt_on_error=0 exitcode=0 history_size=2")
		var eb bytes.Buffer
		cmd.Stderr = &eb
		out, err := cmd.Output()
		ran := int64(strings.Count(string(out), "RAN "))
		c.Eval(1)
		c.Nontrivial(ran)
		c.Count("race_pass_scenarios", ran)
		races := strings.Count(eb.String(), "WARNING: DATA RACE")
		c.Count("race_reports", int64(races))
		if canary >= 0 {
			k := canary
			c.Outcome(fmt.Sprintf("canary %d races=%v", k, races > 0))
			if err != nil || ((k == 0) != (races > 0) && k != 1) {
				c.Fail(i, fmt.Sprintf("race-canary-%d-reported=%v(infrastructure)", k, races > 0), map[string]any{"err": fmt.Sprint(err), "stderr": tail(eb.String(), 2000)})
			}
			return
		}
		if err != nil {
			// a Go runtime fatal error (e.g. concurrent map writes) is a finding of the free-running pass
			if !strings.Contains(eb.String(), "go-qrllib") {
				c.Cap("a race-pass process could not be run (infrastructure): " + err.Error())
				return
			}
			key := "race-pass-process-crashed:" + firstLibFrame(eb.String())
			if strings.Contains(eb.String(), "fatal error: concurrent map") {
				key = "fatal-concurrent-map-access:" + firstLibFrame(eb.String())
			}
			c.Fail(i, key, map[string]any{"selection": sel, "err": err.Error(), "stderr": tail(eb.String(), 3000)})
			return
		}
		c.Outcome(fmt.Sprintf("races=%v", races > 0))
		if k := strings.Index(string(out), "RESULT-DIFFERS"); k >= 0 {
			line := string(out)[k:]
			if e := strings.Index(line, "\n"); e > 0 {
				line = line[:e]
			}
			c.Fail(i, "free-running-result-differs-from-solo", map[string]any{"selection": sel, "first": line, "data_race_reports": races})
		}
		if races > 0 {
			fn := firstLibFrame(eb.String())
			c.Fail(i, "data-race:"+fn, map[string]any{"selection": sel, "reports": races, "first_report": tail(firstReport(eb.String()), 4000)})
		}
	}
	ck.Domains = append(ck.Domains, &drv.Domain{Name: "race-pass", Size: int64(npairs) + 3, Chunk: 4, Desc: "free-running -race build: every pair as 4 goroutines (a,b,a,b) started together as the first library calls of a fresh process, plus the canary (racy variant must be reported by the detector, sync.Once variant must not); results compared with the solo results",
		Run: func(c *drv.Ctx, lo, hi int64) {
			if os.Getenv("VERIF_RACE_BIN") == "" {
				c.Warn("race binary not available: race pass skipped")
				c.Cap("race binary not available")
				return
			}
			reps := 2
			if c.Tier == "thorough" {
				reps = 8
			}
			for i := lo; i < hi; i++ {
				c.At(i)
				if c.FailCount() >= 3 {
					c.Count("scenarios_skipped_after_failures", 1)
					continue
				}
				if i < int64(npairs) {
					a, b := pairOf(int(i), nops)
					raceSel(c, i, fmt.Sprintf("pair:%d,%d:%d", a, b, reps), -1)
				} else {
					raceSel(c, i, fmt.Sprintf("canary:%d", i-int64(npairs)), int(i-int64(npairs)))
				}
			}
		}})
	// after-prior: one earlier call (run alone, to completion) and then a pair — state an earlier call leaves behind
	family := func(keys ...string) []int {
		var out []int
		for i, o := range ops {
			for _, k := range keys {
				if strings.Contains(strings.ToLower(o.name), k) {
					out = append(out, i)
					break
				}
			}
		}
		return out
	}
	type after struct{ p, a, b int }
	var afters []after
	for gi, g := range [][]int{mn, dl, xm} {
		fam := [][]int{family("mnemonic"), family("dilithium", "sharedkey"), family("xmss")}[gi]
		for _, p := range fam {
			for a := 0; a < len(g); a++ {
				for b := a; b < len(g); b++ {
					afters = append(afters, after{p, g[a], g[b]})
				}
			}
		}
	}
	ck.Domains = append(ck.Domains, &drv.Domain{Name: "after-prior", Size: int64(len(afters)), Chunk: 1,
		Desc: fmt.Sprintf("what an earlier call leaves behind: %d scenarios = every operation p of a family (mnemonic / Dilithium / XMSS, incl. the related-input and early-exit variants) run alone to completion, then every pair of the family's core group on 2 managed threads, every execution in a fresh process (preemption bound 0,1; thorough 2), and the same scenario free-running under the race detector", len(afters)),
		Run: func(c *drv.Ctx, lo, hi int64) {
			bound, reps := 1, 2
			if c.Tier == "thorough" {
				bound, reps = 2, 6
			}
			for i := lo; i < hi; i++ {
				c.At(i)
				if c.FailCount() >= 3 {
					c.Count("scenarios_skipped_after_failures", 1)
					continue
				}
				s := afters[i]
				bad, pbad := false, ""
				scenarioPrefix = "after " + ops[s.p].name + ": "
				st := exploreCase(c, i, "after-prior", []int{s.a, s.b}, priorBackend([]int{s.p}, []int{s.a, s.b}, &bad, &pbad), bound)
				scenarioPrefix = ""
				if bad {
					c.Fail(i, "shared-input-buffers-modified", map[string]any{"scenario": ops[s.p].name + " ; " + ops[s.a].name + " || " + ops[s.b].name})
				}
				if pbad != "" {
					c.Fail(i, "prior-call-result-differs-from-solo", map[string]any{"observed": pbad})
				}
				c.Outcome(fmt.Sprintf("outcomes=%d", len(st.Outcomes)))
				if os.Getenv("VERIF_RACE_BIN") != "" {
					raceSel(c, i, fmt.Sprintf("after:%d:%d,%d:%d", s.p, s.a, s.b, reps), -1)
				}
			}
		}})
	ck.Domains = append(ck.Domains, &drv.Domain{Name: "input-sweeps", Size: int64(len(sweepFamilies)), Chunk: 1,
		Desc: "histories over many DISTINCT inputs: each of 9 call families on inputs j = 0..n-1 (n = 300; thorough 5000, descriptor 65536) in one fresh process, the whole sweep twice, and once in the opposite order in another fresh process: the result for input j is the same in the first pass, the second pass and the reversed process (bounded caches / memo tables with eviction answer an early input from a recycled slot)",
		Run: func(c *drv.Ctx, lo, hi int64) {
			for i := lo; i < hi; i++ {
				c.At(i)
				n := 300
				if c.Tier == "thorough" {
					n = 5000
					if i == 8 {
						n = 65536
					}
				}
				fwd, f1, e1 := sweepSpawn(fmt.Sprintf("%d:%d:fwd2", i, n))
				c.Tick()
				rev, f2, e2s := sweepSpawn(fmt.Sprintf("%d:%d:rev", i, n))
				c.Eval(int64(3 * n))
				c.Nontrivial(int64(3 * n))
				if fwd == nil || rev == nil || len(fwd) != 2 || len(rev) != 1 {
					if strings.Contains(e1+e2s, "go-qrllib") {
						c.Fail(i, "sweep-process-crashed:"+sweepFamilies[i], map[string]any{"err": tail(e1+" "+e2s, 2000)})
					} else {
						c.Cap("a sweep process could not be run (infrastructure): " + tail(e1+" "+e2s, 200))
					}
					continue
				}
				if f1 != fx.Solo["fixtures"] || f2 != fx.Solo["fixtures"] {
					c.Fail(i, "shared-input-buffers-modified", map[string]any{"family": sweepFamilies[i]})
				}
				distinct := map[string]bool{}
				for j := 0; j < n; j++ {
					distinct[fwd[0][j]] = true
					if fwd[0][j] != fwd[1][j] || fwd[0][j] != rev[0][j] {
						c.Fail(i, "result-depends-on-earlier-inputs:"+sweepFamilies[i], map[string]any{"input_index": j, "inputs_in_sweep": n, "first_pass": fwd[0][j], "second_pass": fwd[1][j], "reversed_order_process": rev[0][j]})
						break
					}
				}
				c.Max("distinct_results_in_one_sweep", int64(len(distinct)))
				c.Outcome(fmt.Sprintf("distinct>1=%v", len(distinct) > 1))
			}
		}})
	ck.Finish = func(cov map[string]any, m map[string]*drv.DomStats) {
		var sched, dec int64
		cv := map[string]bool{}
		for _, d := range m {
			sched += d.Counters["schedules"]
			dec += d.Counters["decision_points"]
			for k := range d.Sets["conflict_vars"] {
				cv[k] = true
			}
		}
		cov["states"] = dec
		cov["transitions"] = dec
		cov["schedules"] = sched
		cov["traces_validated_against_impl"] = sched
		cov["instrumented_sites"] = vs.InstrumentedSites
		cov["instrumented_variables"] = vs.VarNames
		l := []string{}
		for k := range cv {
			l = append(l, k)
		}
		cov["conflict_variables_observed"] = l
		cov["explanation_states"] = "states/transitions = scheduler decision points visited over all schedules (stateless exploration on the real code: every schedule is an execution of the implementation)"
	}
	drv.Main(ck)
}

func tail(s string, n int) string {
	if len(s) > n {
		return s[len(s)-n:]
	}
	return s
}

func firstReport(s string) string {
	i := strings.Index(s, "WARNING: DATA RACE")
	if i < 0 {
		return ""
	}
	s = s[i:]
	if j := strings.Index(s, "=================="); j > 0 {
		s = s[:j]
	}
	return s
}

func firstLibFrame(s string) string {
	src := firstReport(s)
	if src == "" {
		src = s
	}
	for _, l := range strings.Split(src, "\n") {
		l = strings.TrimSpace(l)
		if strings.HasPrefix(l, "github.com/theQRL/go-qrllib/") && !strings.Contains(l, "verifsched") {
			l = strings.TrimPrefix(l, "github.com/theQRL/go-qrllib/")
			if k := strings.Index(l, "("); k > 0 {
				l = l[:k]
			}
			return l
		}
	}
	return "unknown"
}
