// C15 — stateless operations are safe to run concurrently and history-free.
// Engine E2: (1) every pair / selected triple of operations on managed threads, all interleavings at
// the instrumented conflicting accesses and lock operations with <= 2 preemptions; (2) every
// sequential history of length <= 2 (quick) / <= 3 (thorough), each in a fresh process;
// (3) the same scenario bodies free-running under the race detector in a separate -race build.
// Oracle: every call's result equals the result of the same call run alone in a fresh process.
package main

import (
	"bytes"
	"crypto/sha256"
	"encoding/hex"
	"encoding/json"
	"fmt"
	"os"
	"os/exec"
	"runtime"
	"strings"
	"sync"
	"time"

	"github.com/theQRL/go-qrllib/common"
	"github.com/theQRL/go-qrllib/dilithium"
	"github.com/theQRL/go-qrllib/misc"
	"github.com/theQRL/go-qrllib/qrllib-js/dilithiumjs"
	"github.com/theQRL/go-qrllib/qrllib-js/xmssjs"
	"github.com/theQRL/go-qrllib/verifcanary"
	vs "github.com/theQRL/go-qrllib/verifsched"
	"github.com/theQRL/go-qrllib/xmss"
	"verifmc/drv"
	"verifmc/e2"
	"verifmc/seeds"
)

type op struct {
	name string
	f    func() string
}

var ops []op

// fixtures: built once per process, deliberately SHARED between threads (same backing arrays).
var (
	xMsg, xSig, xBad []byte
	xPK              [67]byte
	dKey             *dilithium.Dilithium
	dPK              [dilithium.CryptoPublicKeyBytes]byte
	dMsg, dSM        []byte
	dSig             [dilithium.CryptoBytes]byte
	seedA            [48]byte
	eseedA           [51]byte
	mnemA, mnemE     string
	legacyA          [39]byte
	addrX, addrD     [20]byte
)

func digest(parts ...any) string {
	h := sha256.New()
	for _, p := range parts {
		fmt.Fprintf(h, "%v|", p)
	}
	return hex.EncodeToString(h.Sum(nil)[:8])
}

func call(f func() string) string {
	var r string
	o := drv.Call(func() { r = f() })
	if o != "ok" {
		return o
	}
	return r
}

func setup() {
	if ops != nil {
		return
	}
	vseed := int64(0)
	k := xmss.NewXMSSFromSeed(seeds.Seed48(3, vseed), 4, xmss.SHAKE_128, common.SHA256_2X)
	k.SetIndex(5)
	xMsg = []byte("c15 xmss message")
	xSig, _ = k.Sign(xMsg)
	xBad = append([]byte(nil), xSig...)
	xBad[100] ^= 4
	xPK = k.GetPK()
	addrX = k.GetAddress()
	legacyA = k.GetLegacyAddress()
	dKey, _ = dilithium.NewDilithiumFromSeed(seeds.Seed48(4, vseed))
	dPK = dKey.GetPK()
	dMsg = []byte("c15 dilithium message")
	dSig, _ = dKey.Sign(dMsg)
	dSM, _ = dKey.Seal(dMsg)
	addrD = dKey.GetAddress()
	seedA = seeds.Seed48(5, vseed)
	copy(eseedA[:], []byte{1, 2, 0})
	copy(eseedA[3:], seedA[:])
	mnemA = misc.SeedBinToMnemonic(seedA)
	mnemE = misc.ExtendedSeedBinToMnemonic(eseedA)
	hexSig, hexPK := "0x"+hex.EncodeToString(dSig[:]), hex.EncodeToString(dPK[:])
	hexXSig, hexXPK := hex.EncodeToString(xSig), "0x"+hex.EncodeToString(xPK[:])
	ops = []op{
		{"xmss.Verify(valid)", func() string { return fmt.Sprint(xmss.Verify(xMsg, xSig, xPK)) }},
		{"xmss.Verify(tampered)", func() string { return fmt.Sprint(xmss.Verify(xMsg, xBad, xPK)) }},
		{"xmss.VerifyWithCustomWOTSParamW(16)", func() string { return fmt.Sprint(xmss.VerifyWithCustomWOTSParamW(xMsg, xSig, xPK, 16)) }},
		{"dilithium.Verify", func() string { return fmt.Sprint(dilithium.Verify(dMsg, dSig, &dPK)) }},
		{"dilithium.Open", func() string { return digest(dilithium.Open(dSM, &dPK)) }},
		{"sharedKey.Sign", func() string { s, err := dKey.Sign(dMsg); return digest(s, err) }},
		{"sharedKey.Seal", func() string { s, err := dKey.Seal([]byte("another message")); return digest(s, err) }},
		{"GetXMSSAddressFromPK", func() string { return digest(xmss.GetXMSSAddressFromPK(xPK)) }},
		{"GetLegacyXMSSAddressFromPK", func() string { return digest(xmss.GetLegacyXMSSAddressFromPK(xPK)) }},
		{"GetDilithiumAddressFromPK", func() string { return digest(dilithium.GetDilithiumAddressFromPK(dPK)) }},
		{"IsValidXMSSAddress", func() string { return fmt.Sprint(xmss.IsValidXMSSAddress(addrX), xmss.IsValidXMSSAddress(addrD)) }},
		{"IsValidLegacyXMSSAddress", func() string { return fmt.Sprint(xmss.IsValidLegacyXMSSAddress(legacyA)) }},
		{"IsValidDilithiumAddress", func() string {
			return fmt.Sprint(dilithium.IsValidDilithiumAddress(addrD), dilithium.IsValidDilithiumAddress(addrX))
		}},
		{"SeedBinToMnemonic", func() string { return digest(misc.SeedBinToMnemonic(seedA)) }},
		{"ExtendedSeedBinToMnemonic", func() string { return digest(misc.ExtendedSeedBinToMnemonic(eseedA)) }},
		{"MnemonicToSeedBin", func() string { return digest(misc.MnemonicToSeedBin(mnemA)) }},
		{"MnemonicToExtendedSeedBin", func() string { return digest(misc.MnemonicToExtendedSeedBin(mnemE)) }},
		{"MnemonicToSeedBin(invalid)", func() string { return digest(misc.MnemonicToSeedBin(mnemA + " zzz")) }},
		{"descriptor", func() string {
			d := xmss.NewQRLDescriptorFromExtendedPK(&xPK)
			return digest(d.GetBytes(), xmss.NewQRLDescriptor(6, xmss.SHA2_256, common.XMSSSig, common.SHA256_2X).GetBytes())
		}},
		{"NewDilithiumFromSeed+Sign", func() string {
			d, err := dilithium.NewDilithiumFromSeed(seedA)
			if err != nil {
				return "err"
			}
			s, _ := d.Sign(dMsg)
			return digest(d.GetPK(), s)
		}},
		{"privateXMSS(new,sign,setindex,sign)", func() string {
			k := xmss.NewXMSSFromSeed(seedA, 4, xmss.SHA2_256, common.SHA256_2X)
			s1, _ := k.Sign(xMsg)
			k.SetIndex(7)
			s2, _ := k.Sign(xMsg)
			return digest(k.GetPK(), s1, s2, k.GetIndex(), xmss.Verify(xMsg, s2, k.GetPK()))
		}},
		{"dilithiumjs.DilithiumVerify", func() string { return fmt.Sprint(dilithiumjs.DilithiumVerify(dMsg, hexSig, hexPK)) }},
		{"xmssjs.XMSSVerify", func() string { return fmt.Sprint(xmssjs.XMSSVerify(string(xMsg), hexXSig, hexXPK)) }},
	}
	// related-input variants: same call with an input that shares a prefix / a component with the fixture
	// (a cache keyed on part of its input answers these from the wrong entry)
	dPK2 := dPK
	dPK2[40] ^= 0x10 // same rho, different t1
	xPK2 := xPK
	xPK2[50] ^= 1 // same descriptor and root, different public seed
	xPK3 := xPK
	xPK3[10] ^= 1 // same descriptor, different root
	dMsg2 := append([]byte(nil), dMsg...)
	dMsg2[0] ^= 1
	addrD2 := addrD
	addrD2[19] ^= 1
	ops = append(ops,
		op{"dilithium.Verify(pk: same rho, t1 changed)", func() string { return fmt.Sprint(dilithium.Verify(dMsg, dSig, &dPK2)) }},
		op{"dilithium.Verify(other message)", func() string { return fmt.Sprint(dilithium.Verify(dMsg2, dSig, &dPK)) }},
		op{"dilithium.Open(pk: same rho, t1 changed)", func() string { return digest(dilithium.Open(dSM, &dPK2)) }},
		op{"xmss.Verify(pk: seed changed)", func() string { return fmt.Sprint(xmss.Verify(xMsg, xSig, xPK2)) }},
		op{"xmss.Verify(other message)", func() string { return fmt.Sprint(xmss.Verify(dMsg, xSig, xPK)) }},
		op{"GetDilithiumAddressFromPK(same rho, t1 changed)", func() string { return digest(dilithium.GetDilithiumAddressFromPK(dPK2)) }},
		op{"GetXMSSAddressFromPK(root changed)", func() string { return digest(xmss.GetXMSSAddressFromPK(xPK3), xmss.GetLegacyXMSSAddressFromPK(xPK3)) }},
		op{"dilithiumjs.DilithiumVerify(other message, same signature)", func() string { return fmt.Sprint(dilithiumjs.DilithiumVerify(dMsg2, hexSig, hexPK)) }},
		op{"dilithiumjs.GetDilithiumAddressFromPK/IsValid", func() string {
			return digest(dilithiumjs.GetDilithiumAddressFromPK(hexPK), dilithiumjs.IsValidDilithiumAddress(hex.EncodeToString(addrD2[:])), xmssjs.IsValidXMSSAddress(hex.EncodeToString(addrX[:])), xmssjs.GetXMSSAddressFromPK(hexXPK))
		}},
	)
	for i := range ops {
		f := ops[i].f
		ops[i].f = func() string { return call(f) }
	}
}

// fixtureDigest detects modification of the shared input buffers.
func fixtureDigest() string {
	return digest(xMsg, xSig, xBad, xPK, dPK, dMsg, dSM, dSig, seedA, eseedA, mnemA, mnemE, legacyA, addrX, addrD, dKey.GetPK(), dKey.GetSK())
}

var canaryOps = []op{
	{"canary.RacyLookup", func() string { return fmt.Sprint(verifcanary.RacyLookup(3)) }},
	{"canary.ToctouLookup", func() string { return fmt.Sprint(verifcanary.ToctouLookup(3)) }},
	{"canary.GoodLookup", func() string { return fmt.Sprint(verifcanary.GoodLookup(3)) }},
}

// solo results: each op alone in a fresh process.
var solo map[string]string

func loadSolo() {
	if solo != nil {
		return
	}
	solo = map[string]string{}
	if p := os.Getenv("VERIF_SOLO_FILE"); p != "" {
		if b, err := os.ReadFile(p); err == nil && json.Unmarshal(b, &solo) == nil && len(solo) > 0 {
			return
		}
	}
	self, _ := os.Executable()
	setup()
	var mu sync.Mutex
	var wg sync.WaitGroup
	sem := make(chan struct{}, 8)
	for i := range ops {
		wg.Add(1)
		go func(i int) {
			defer wg.Done()
			sem <- struct{}{}
			defer func() { <-sem }()
			cmd := exec.Command(self, "-replay", "", "-only", "")
			cmd.Env = append(os.Environ(), fmt.Sprintf("VERIF_C15_SEQ=%d", i))
			out, err := cmd.Output()
			if err != nil {
				fmt.Fprintln(os.Stderr, "solo run failed:", ops[i].name, err)
				os.Exit(2)
			}
			var r []string
			json.Unmarshal(bytes.TrimSpace(out), &r)
			mu.Lock()
			solo[ops[i].name] = r[0]
			mu.Unlock()
		}(i)
	}
	wg.Wait()
	solo["fixtures"] = fixtureDigest()
}

func pairOf(k int, n int) (int, int) { // unordered pairs incl. (i,i)
	for i := 0; i < n; i++ {
		for j := i; j < n; j++ {
			if k == 0 {
				return i, j
			}
			k--
		}
	}
	panic("pair index")
}

func scenarioOf(idx []int) (*e2.Scenario, []string) {
	sc := &e2.Scenario{Reset: func() {}}
	var exp []string
	var names []string
	for _, i := range idx {
		sc.Bodies = append(sc.Bodies, ops[i].f)
		exp = append(exp, solo[ops[i].name])
		names = append(names, ops[i].name)
	}
	sc.Name = strings.Join(names, " || ")
	return sc, exp
}

var cappedSoFar int

func exploreCase(c *drv.Ctx, i int64, sc *e2.Scenario, exp []string, bound int, mustFail bool, maxExec int64) *e2.Stats {
	e2.Progress = c.Tick
	budget := 15 * time.Second
	if c.Tier == "thorough" {
		budget = 120 * time.Second
	}
	if cappedSoFar >= 3 {
		budget = 2 * time.Second // this tree makes every scenario expensive: keep the run bounded
	}
	st, v := e2.Explore(sc, bound, exp, maxExec, budget)
	if st.Capped {
		cappedSoFar++
		c.Cap(fmt.Sprintf("scenario time budget reached (bound completed: %d)", st.BoundCompleted))
	}
	c.SetAdd("bounds_completed", fmt.Sprint(st.BoundCompleted))
	c.Eval(st.Executions)
	c.Count("schedules", st.Executions)
	c.Count("decision_points", st.DecisionPoints)
	c.Count("branching_points", st.Branching)
	c.Count("preemptive_choices", st.Preemptive)
	c.Count("conflict_set_restarts", int64(st.Restarts))
	c.Max("distinct_outcome_vectors_in_one_scenario", int64(len(st.Outcomes)))
	c.Max("points_executed", st.PointsSeen)
	for _, n := range st.ConflictVars {
		c.SetAdd("conflict_vars", n)
	}
	if st.Preemptive > 0 {
		c.Nontrivial(1)
	}
	if v != nil && !mustFail {
		// determinism: replay the schedule twice, identical observations required
		r1 := e2.Replay(sc, v.Choices, st.ConflictVars)
		r2 := e2.Replay(sc, v.Choices, st.ConflictVars)
		if fmt.Sprint(r1.Results) != fmt.Sprint(v.Results) || fmt.Sprint(r2.Results) != fmt.Sprint(v.Results) {
			c.Fail(i, "nondeterministic-replay(infrastructure)", map[string]any{"scenario": sc.Name})
			return st
		}
		c.Fail(i, "interleaving:"+sc.Name, map[string]any{"scenario": sc.Name, "why": v.Why, "schedule_choices": v.Choices, "observed": v.Results, "expected_solo": v.Expected,
			"conflict_vars": st.ConflictVars, "preemption_bound": bound})
	}
	if fixtureDigest() != solo["fixtures"] {
		c.Fail(i, "shared-input-buffers-modified:"+sc.Name, map[string]any{"scenario": sc.Name})
	}
	return st
}

func raceRun(sel string) {
	// free-running pass in the -race build: VERIF_C15_RACE="pairs:<shard>/<n>:<reps>" | "canary:<k>"
	setup()
	runtime.GOMAXPROCS(8)
	runSet := func(fs []func() string, reps int) []string {
		res := make([]string, len(fs))
		for r := 0; r < reps; r++ {
			var wg sync.WaitGroup
			start := make(chan struct{})
			for t := range fs {
				wg.Add(1)
				go func(t int) {
					defer wg.Done()
					<-start
					res[t] = fs[t]()
				}(t)
			}
			close(start)
			wg.Wait()
		}
		return res
	}
	parts := strings.Split(sel, ":")
	switch parts[0] {
	case "canary":
		var k int
		fmt.Sscan(parts[1], &k)
		runSet([]func() string{canaryOps[k].f, canaryOps[k].f, canaryOps[k].f}, 20)
	case "pairs":
		var shard, n, reps int
		fmt.Sscanf(parts[1], "%d/%d", &shard, &n)
		fmt.Sscan(parts[2], &reps)
		np := len(ops) * (len(ops) + 1) / 2
		bad := 0
		for k := 0; k < np; k++ {
			if k%n != shard {
				continue
			}
			a, b := pairOf(k, len(ops))
			res := runSet([]func() string{ops[a].f, ops[b].f, ops[a].f}, reps)
			fmt.Printf("RAN %s || %s\n", ops[a].name, ops[b].name)
			_ = res
			bad += 0
		}
	}
}

func main() {
	if s := os.Getenv("VERIF_C15_SEQ"); s != "" {
		// run a sequence of ops in this (fresh) process and print the results
		setup()
		var out []string
		for _, f := range strings.Split(s, ",") {
			var i int
			fmt.Sscan(f, &i)
			out = append(out, ops[i].f())
		}
		b, _ := json.Marshal(out)
		fmt.Println(string(b))
		return
	}
	if s := os.Getenv("VERIF_C15_RACE"); s != "" {
		raceRun(s)
		return
	}
	setup()
	if p := os.Getenv("VERIF_SOLO_FILE"); p != "" {
		isMaster := true
		for _, a := range os.Args[1:] {
			if a == "-worker" || a == "-replay" {
				isMaster = false
			}
		}
		if _, err := os.Stat(p); err != nil && isMaster {
			os.Unsetenv("VERIF_SOLO_FILE")
			loadSolo()
			b, _ := json.Marshal(solo)
			os.WriteFile(p, b, 0o644)
			os.Setenv("VERIF_SOLO_FILE", p)
		}
	}
	nops := len(ops)
	npairs := nops * (nops + 1) / 2
	ck := &drv.Check{Property: "C15", Level: "model_checking",
		Rule: "controlled-scheduler exploration: every unordered pair of the 32 operations (incl. an operation with itself) on 2 managed threads and selected triples on 3, all interleavings at instrumented conflicting accesses / lock operations with preemption bound 0,1,2 (conflict-set fix point), " +
			"each schedule re-run from the initial state; every sequential history of length <= 2 (quick) / <= 3 (thorough) in a fresh process; the same scenario bodies free-running under the race detector in a separate -race build; a built-in canary (racy lazy table, lock-protected check-then-act, correct sync.Once) instrumented by the same instrumenter. " +
			"oracle: result(call) == result of the same call alone in a fresh process; inputs unchanged; no DATA RACE. non-trivial = a scenario with at least one preemptive schedule, a history of length >= 2, or a race-pass pair",
		Assumptions: []string{"sequentially consistent interleavings at statement granularity; Go's weaker memory model is covered by requiring the same bodies to be race-free in the free-running -race pass (DRF => SC)",
			"shared-access instrumentation is syntactic (package-level variables, fields through *dilithium.Dilithium, one-level alias taint); writes through other aliases are still subject to the race pass",
			"<= 3 threads, <= 2 preemptions; globals inside x/crypto and the runtime are out of scope"},
		Horizon: 0}
	ck.Domains = append(ck.Domains, &drv.Domain{Name: "canary", Size: 3, Chunk: 1, Desc: "built-in canary: RacyLookup and ToctouLookup MUST be reported by the explorer within preemption bound 2, GoodLookup (sync.Once) must not",
		Run: func(c *drv.Ctx, lo, hi int64) {
			loadSolo()
			for i := lo; i < hi; i++ {
				c.At(i)
				f := canaryOps[i].f
				sc := &e2.Scenario{Name: canaryOps[i].name + " x2", Reset: verifcanary.Reset, Bodies: []func() string{f, f}}
				verifcanary.Reset()
				want := f()
				st, v := e2.Explore(sc, 2, []string{want, want}, 200000, 0)
				c.Eval(st.Executions)
				c.Count("schedules", st.Executions)
				c.Count("preemptive_choices", st.Preemptive)
				c.Nontrivial(1)
				caught := v != nil
				c.Outcome(fmt.Sprintf("%s caught=%v", canaryOps[i].name, caught))
				if (i < 2) != caught {
					c.Fail(i, fmt.Sprintf("canary-%s-caught=%v(infrastructure)", canaryOps[i].name, caught), map[string]any{"meaning": "the explorer lost its ability to find (or to not find) a known interleaving bug", "schedules": st.Executions, "conflict_vars": st.ConflictVars})
				}
				smp := map[string]any{"scenario": sc.Name, "schedules": st.Executions, "caught": caught, "conflict_vars": st.ConflictVars}
				if v != nil {
					smp["schedule_choices"], smp["observed"] = v.Choices, v.Results
				}
				c.Sample(smp)
			}
		}})
	ck.Domains = append(ck.Domains, &drv.Domain{Name: "pairs", Size: int64(npairs), Chunk: 1, Desc: fmt.Sprintf("all %d unordered pairs of the %d operations on 2 managed threads, preemption bound 0,1,2", npairs, nops),
		Run: func(c *drv.Ctx, lo, hi int64) {
			loadSolo()
			for i := lo; i < hi; i++ {
				c.At(i)
				if c.FailCount() >= 2 {
					c.Count("scenarios_skipped_after_failures", 1)
					continue
				}
				a, b := pairOf(int(i), nops)
				sc, exp := scenarioOf([]int{a, b})
				st := exploreCase(c, i, sc, exp, 2, false, 20000)
				c.Outcome(fmt.Sprintf("outcomes=%d", len(st.Outcomes)))
				if i == 5 {
					c.Sample(map[string]any{"scenario": sc.Name, "schedules": st.Executions, "decision_points": st.DecisionPoints, "conflict_vars": st.ConflictVars})
				}
			}
		}})
	// triples: operations that touch the same package-level variable / shared object
	groups := [][]int{}
	byName := func(n string) int {
		for i, o := range ops {
			if o.name == n {
				return i
			}
		}
		panic(n)
	}
	mn := []int{byName("SeedBinToMnemonic"), byName("ExtendedSeedBinToMnemonic"), byName("MnemonicToSeedBin"), byName("MnemonicToExtendedSeedBin"), byName("MnemonicToSeedBin(invalid)")}
	dl := []int{byName("dilithium.Verify"), byName("dilithium.Open"), byName("sharedKey.Sign"), byName("sharedKey.Seal"), byName("NewDilithiumFromSeed+Sign"), byName("dilithiumjs.DilithiumVerify")}
	xm := []int{byName("xmss.Verify(valid)"), byName("xmss.Verify(tampered)"), byName("privateXMSS(new,sign,setindex,sign)"), byName("xmssjs.XMSSVerify"), byName("GetXMSSAddressFromPK")}
	for _, g := range [][]int{mn, dl, xm} {
		for a := 0; a < len(g); a++ {
			for b := a; b < len(g); b++ {
				for d := b; d < len(g); d++ {
					groups = append(groups, []int{g[a], g[b], g[d]})
				}
			}
		}
	}
	ck.Domains = append(ck.Domains, &drv.Domain{Name: "triples", Size: int64(len(groups)), Chunk: 1, Desc: "all multisets of 3 operations within each group that touches the same shared object (word list; zetas / shared Dilithium key; XMSS hashing) on 3 managed threads, preemption bound 0,1,2",
		Run: func(c *drv.Ctx, lo, hi int64) {
			loadSolo()
			for i := lo; i < hi; i++ {
				c.At(i)
				if c.FailCount() >= 2 {
					c.Count("scenarios_skipped_after_failures", 1)
					continue
				}
				sc, exp := scenarioOf(groups[i])
				st := exploreCase(c, i, sc, exp, 2, false, 20000)
				c.Outcome(fmt.Sprintf("outcomes=%d", len(st.Outcomes)))
			}
		}})
	hist := func(name, tier string, n int) {
		size := int64(1)
		for k := 0; k < n; k++ {
			size *= int64(nops)
		}
		ck.Domains = append(ck.Domains, &drv.Domain{Name: name, Tier: tier, Size: size, Chunk: 4, Desc: fmt.Sprintf("every sequence of %d operations on one thread, each sequence in a fresh process: every result equals the solo result", n),
			Run: func(c *drv.Ctx, lo, hi int64) {
				loadSolo()
				self, _ := os.Executable()
				for i := lo; i < hi; i++ {
					c.At(i)
					var seq []string
					var idx []int
					k := i
					for t := 0; t < n; t++ {
						idx = append(idx, int(k%int64(nops)))
						seq = append(seq, fmt.Sprint(k%int64(nops)))
						k /= int64(nops)
					}
					cmd := exec.Command(self)
					cmd.Env = append(os.Environ(), "VERIF_C15_SEQ="+strings.Join(seq, ","))
					out, err := cmd.Output()
					c.Eval(1)
					c.Nontrivial(1)
					var res []string
					if err != nil || json.Unmarshal(bytes.TrimSpace(out), &res) != nil || len(res) != n {
						c.Fail(i, "history-process-failed", map[string]any{"sequence": seq, "err": fmt.Sprint(err), "output": string(out)})
						continue
					}
					for t := range res {
						if res[t] != solo[ops[idx[t]].name] {
							var names []string
							for _, x := range idx {
								names = append(names, ops[x].name)
							}
							c.Fail(i, "history-dependent-result:"+ops[idx[t]].name, map[string]any{"sequence": names, "position": t, "expected_solo": solo[ops[idx[t]].name], "observed": res[t]})
							break
						}
					}
					c.Outcome("equal")
					if i == 30 {
						c.Sample(map[string]any{"sequence": seq})
					}
				}
			}})
	}
	hist("histories-2", "", 2)
	hist("histories-3", "t", 3)
	// race pass (separate -race build, free-running)
	const raceShards = 8
	ck.Domains = append(ck.Domains, &drv.Domain{Name: "race-pass", Size: raceShards + 3, Chunk: 1, Desc: "free-running -race build: all pairs (each as 3 goroutines a,b,a) over 8 processes with GOMAXPROCS 8, plus the canary (racy variant must be reported by the detector, sync.Once variant must not)",
		Run: func(c *drv.Ctx, lo, hi int64) {
			bin := os.Getenv("VERIF_RACE_BIN")
			if bin == "" {
				c.Warn("race binary not available: race pass skipped")
				return
			}
			reps := 2
			if c.Tier == "thorough" {
				reps = 6
			}
			for i := lo; i < hi; i++ {
				c.At(i)
				sel := fmt.Sprintf("pairs:%d/%d:%d", i, raceShards, reps)
				if i >= raceShards {
					sel = fmt.Sprintf("canary:%d", i-raceShards)
				}
				cmd := exec.Command(bin)
				cmd.Env = append(os.Environ(), "VERIF_C15_RACE="+sel, "GORACE=halt_on_error=0 exitcode=0 history_size=2")
				var eb bytes.Buffer
				cmd.Stderr = &eb
				out, err := cmd.Output()
				ran := int64(strings.Count(string(out), "RAN "))
				c.Eval(ran + 1)
				c.Nontrivial(ran)
				c.Count("race_pass_scenarios", ran)
				races := strings.Count(eb.String(), "WARNING: DATA RACE")
				c.Count("race_reports", int64(races))
				if err != nil {
					c.Fail(i, "race-pass-process-failed", map[string]any{"selection": sel, "err": err.Error(), "stderr": tail(eb.String(), 3000)})
					continue
				}
				if i >= raceShards {
					k := int(i - raceShards)
					c.Outcome(fmt.Sprintf("canary %d races=%v", k, races > 0))
					if (k == 0) != (races > 0) && k != 1 {
						c.Fail(i, fmt.Sprintf("race-canary-%d-reported=%v(infrastructure)", k, races > 0), map[string]any{"stderr": tail(eb.String(), 2000)})
					}
					continue
				}
				c.Outcome(fmt.Sprintf("races=%v", races > 0))
				if races > 0 {
					fn := firstLibFrame(eb.String())
					c.Fail(i, "data-race:"+fn, map[string]any{"selection": sel, "reports": races, "first_report": tail(firstReport(eb.String()), 4000)})
				}
			}
		}})
	ck.Finish = func(cov map[string]any, m map[string]*drv.DomStats) {
		var sched, dec int64
		cv := map[string]bool{}
		for _, d := range m {
			sched += d.Counters["schedules"]
			dec += d.Counters["decision_points"]
			for k := range d.Sets["conflict_vars"] {
				cv[k] = true
			}
		}
		cov["states"] = dec
		cov["transitions"] = dec
		cov["schedules"] = sched
		cov["traces_validated_against_impl"] = sched
		cov["instrumented_sites"] = vs.InstrumentedSites
		cov["instrumented_variables"] = vs.VarNames
		var l []string
		for k := range cv {
			l = append(l, k)
		}
		cov["conflict_variables_observed"] = l
		cov["explanation_states"] = "states/transitions = scheduler decision points visited over all schedules (stateless exploration on the real code: every schedule is an execution of the implementation)"
	}
	drv.Main(ck)
}

func tail(s string, n int) string {
	if len(s) > n {
		return s[len(s)-n:]
	}
	return s
}

func firstReport(s string) string {
	i := strings.Index(s, "WARNING: DATA RACE")
	if i < 0 {
		return ""
	}
	s = s[i:]
	if j := strings.Index(s, "=================="); j > 0 {
		s = s[:j]
	}
	return s
}

func firstLibFrame(s string) string {
	for _, l := range strings.Split(firstReport(s), "\n") {
		l = strings.TrimSpace(l)
		if strings.HasPrefix(l, "github.com/theQRL/go-qrllib/") && !strings.Contains(l, "verifsched") {
			l = strings.TrimPrefix(l, "github.com/theQRL/go-qrllib/")
			if k := strings.Index(l, "("); k > 0 {
				l = l[:k]
			}
			return l
		}
	}
	return "unknown"
}
