// C16 — JavaScript-facing string wrappers agree with the core API.
// Engine E3: triples x renderings x prefixes; all descriptor / first-byte values; a non-hex alphabet.
// The wrapper packages compile natively (gopherjs/js is only referenced by the object constructors).
package main

import (
	"encoding/hex"
	"fmt"
	"strings"

	"github.com/theQRL/go-qrllib/common"
	"github.com/theQRL/go-qrllib/dilithium"
	"github.com/theQRL/go-qrllib/qrllib-js/dilithiumjs"
	"github.com/theQRL/go-qrllib/qrllib-js/xmssjs"
	"github.com/theQRL/go-qrllib/xmss"
	"verifmc/drv"
	"verifmc/seeds"
)

// render: bit0 upper-case, bit1 0x prefix
func render(b []byte, mode int) string {
	s := hex.EncodeToString(b)
	if mode&1 == 1 {
		s = strings.ToUpper(s)
	}
	if mode&2 == 2 {
		s = "0x" + s
	}
	return s
}

func modeName(m int) string {
	return []string{"lower", "UPPER", "0x+lower", "0x+UPPER"}[m&3]
}

func stripOut(s string) string { return strings.TrimPrefix(s, "0x") }

type dkey struct {
	d   *dilithium.Dilithium
	pk  [dilithium.CryptoPublicKeyBytes]byte
	msg [][]byte
	sig [][dilithium.CryptoBytes]byte
}

var dkeys []*dkey

func getD(vseed int64) []*dkey {
	if dkeys != nil {
		return dkeys
	}
	for i := 0; i < 2; i++ {
		d, _ := dilithium.NewDilithiumFromSeed(seeds.Seed48(2+i, vseed))
		k := &dkey{d: d, pk: d.GetPK()}
		for j := 0; j < 3; j++ {
			m := []byte(fmt.Sprintf("c16 message %d/%d %s", i, j, strings.Repeat("x", j*40)))
			s, _ := d.Sign(m)
			k.msg, k.sig = append(k.msg, m), append(k.sig, s)
		}
		dkeys = append(dkeys, k)
	}
	return dkeys
}

type xkey struct {
	pk  [67]byte
	msg []byte
	sig []byte
}

var xkeys []*xkey

func getX(vseed int64) []*xkey {
	if xkeys != nil {
		return xkeys
	}
	for hf := 0; hf < 3; hf++ {
		k := xmss.NewXMSSFromSeed(seeds.Seed48(3+hf, vseed), 4, xmss.HashFunction(hf), common.SHA256_2X)
		k.SetIndex(uint32(hf * 5))
		m := []byte(fmt.Sprintf("c16 xmss message %d", hf))
		s, _ := k.Sign(m)
		xkeys = append(xkeys, &xkey{k.GetPK(), m, s})
	}
	return xkeys
}

func outcomeBool(f func() bool) string {
	var r bool
	o := drv.Call(func() { r = f() })
	if o == "ok" {
		return fmt.Sprint(r)
	}
	return o
}

func outcomeStr(f func() string) string {
	var r string
	o := drv.Call(func() { r = f() })
	if o == "ok" {
		return "value:" + r
	}
	return o
}

func main() {
	ck := &drv.Check{Property: "C16", Level: "model_checking",
		Rule: "bounded exhaustive enumeration: (msg,sig,pk) triples (valid, every k-th single-bit flip of a signature, wrong key / message) x hex renderings {lower,UPPER} x prefix {none,0x} for sig and pk independently; " +
			"all 256 first bytes (Dilithium) / all 65536 descriptor byte pairs (XMSS) of addresses and public keys x 4 renderings; a 24-string non-hex alphabet x 6 wrappers. oracle: wrapper outcome == core outcome on the decoded bytes. " +
			"non-trivial = a case whose rendering uses a prefix or upper case, or whose core result is true",
		Assumptions: []string{"inputs of the wrong length are outside the property and not asserted", "the wrappers are driven natively, not through a JavaScript engine"}}
	// Dilithium verify
	dv := func(name, tier string, step int) {
		nflip := dilithium.CryptoBytes * 8 / step
		per := int64(nflip + 2*3*16 + 8)
		ck.Domains = append(ck.Domains, &drv.Domain{Name: name, Tier: tier, Size: per, Chunk: 64,
			Desc: fmt.Sprintf("DilithiumVerify == dilithium.Verify: 6 valid triples x 16 rendering combinations, every %d-th single-bit flip of one signature (renderings rotating), wrong key / wrong message", step),
			Run: func(c *drv.Ctx, lo, hi int64) {
				ks := getD(c.Seed)
				for i := lo; i < hi; i++ {
					c.At(i)
					k := ks[0]
					j := 0
					msg, sig, pk := k.msg[0], k.sig[0], k.pk
					ms, mp := int(i)&3, int(i>>2)&3
					what := "valid"
					switch {
					case i < int64(nflip):
						bit := int(i) * step
						sig[bit/8] ^= 1 << uint(bit%8)
						what = fmt.Sprintf("sig bit %d flipped", bit)
					case i < int64(nflip)+96:
						r := int(i) - nflip
						k = ks[r/48]
						j = r / 16 % 3
						msg, sig, pk = k.msg[j], k.sig[j], k.pk
						ms, mp = r&3, r>>2&3
					default:
						r := int(i) - nflip - 96
						if r < 4 {
							pk = ks[1].pk
							what = "wrong key"
						} else {
							msg = append([]byte(nil), msg...)
							msg[0] ^= 1
							what = "wrong message"
						}
						ms, mp = r&3, (r+1)&3
					}
					core := outcomeBool(func() bool { return dilithium.Verify(msg, sig, &pk) })
					wr := outcomeBool(func() bool { return dilithiumjs.DilithiumVerify(msg, render(sig[:], ms), render(pk[:], mp)) })
					c.Eval(1)
					if ms|mp != 0 || core == "true" {
						c.Nontrivial(1)
					}
					c.Outcome(core)
					if core != wr {
						c.Fail(i, fmt.Sprintf("DilithiumVerify sig=%s pk=%s", modeName(ms), modeName(mp)), map[string]any{"case": what, "core": core, "wrapper": wr})
					}
					if i == int64(nflip)+5 {
						c.Sample(map[string]any{"case": what, "sig_rendering": modeName(ms), "pk_rendering": modeName(mp), "result": wr})
					}
				}
			}})
	}
	dv("dilithium-verify-q", "q", 8)
	dv("dilithium-verify-t", "t", 1)
	ck.Domains = append(ck.Domains, &drv.Domain{Name: "dilithium-address", Size: 256 * 2 * 4, Chunk: 64, Desc: "IsValidDilithiumAddress(hex) == core for all 256 first bytes x 2 tails x 4 renderings",
		Run: func(c *drv.Ctx, lo, hi int64) {
			for i := lo; i < hi; i++ {
				c.At(i)
				var a [20]byte
				a[0] = byte(i)
				copy(a[1:], seeds.Bytes(19, fmt.Sprint("tail", i>>8&1), c.Seed))
				m := int(i >> 9)
				core := outcomeBool(func() bool { return dilithium.IsValidDilithiumAddress(a) })
				wr := outcomeBool(func() bool { return dilithiumjs.IsValidDilithiumAddress(render(a[:], m)) })
				c.Eval(1)
				if m != 0 || core == "true" {
					c.Nontrivial(1)
				}
				c.Outcome(core)
				if core != wr {
					c.Fail(i, "IsValidDilithiumAddress rendering="+modeName(m), map[string]any{"address": hex.EncodeToString(a[:]), "core": core, "wrapper": wr})
				}
			}
		}})
	ck.Domains = append(ck.Domains, &drv.Domain{Name: "dilithium-addr-from-pk", Size: 6 * 4, Chunk: 4, Desc: "GetDilithiumAddressFromPK(hex(pk)) == '0x'+hex(core address): 2 real + 4 filler public keys x 4 renderings",
		Run: func(c *drv.Ctx, lo, hi int64) {
			ks := getD(c.Seed)
			for i := lo; i < hi; i++ {
				c.At(i)
				var pk [dilithium.CryptoPublicKeyBytes]byte
				if i/4 < 2 {
					pk = ks[i/4].pk
				} else {
					copy(pk[:], seeds.Bytes(len(pk), fmt.Sprint("dpk", i/4), c.Seed))
				}
				m := int(i % 4)
				ad := dilithium.GetDilithiumAddressFromPK(pk)
				wr := outcomeStr(func() string { return dilithiumjs.GetDilithiumAddressFromPK(render(pk[:], m)) })
				c.Eval(1)
				c.Nontrivial(1)
				c.Outcome("ok")
				if wr != "value:0x"+hex.EncodeToString(ad[:]) {
					c.Fail(i, "GetDilithiumAddressFromPK rendering="+modeName(m), map[string]any{"core": hex.EncodeToString(ad[:]), "wrapper": wr})
				}
				c.Sample(map[string]any{"rendering": modeName(m), "result": wr})
			}
		}})
	// XMSS verify
	xv := func(name, tier string, step int) {
		nflip := 2308 * 8 / step
		per := int64(nflip + 3*16 + 8)
		ck.Domains = append(ck.Domains, &drv.Domain{Name: name, Tier: tier, Size: per, Chunk: 32,
			Desc: fmt.Sprintf("XMSSVerify == xmss.Verify: 3 valid triples (3 hash functions) x 16 rendering combinations, every %d-th single-bit flip of one signature, wrong key / message", step),
			Run: func(c *drv.Ctx, lo, hi int64) {
				ks := getX(c.Seed)
				for i := lo; i < hi; i++ {
					c.At(i)
					k := ks[int(i)%3]
					msg, sig, pk := k.msg, append([]byte(nil), k.sig...), k.pk
					ms, mp := int(i)&3, int(i>>2)&3
					what := "valid"
					switch {
					case i < int64(nflip):
						bit := int(i) * step
						sig[bit/8] ^= 1 << uint(bit%8)
						what = fmt.Sprintf("sig bit %d flipped", bit)
					case i < int64(nflip)+48:
						r := int(i) - nflip
						k = ks[r/16]
						msg, sig, pk = k.msg, k.sig, k.pk
						ms, mp = r&3, r>>2&3
					default:
						r := int(i) - nflip - 48
						if r < 4 {
							pk = ks[(int(i)+1)%3].pk
							what = "wrong key"
						} else {
							msg = append([]byte("x"), msg...)
							what = "wrong message"
						}
						ms, mp = r&3, (r+1)&3
					}
					core := outcomeBool(func() bool { return xmss.Verify(msg, sig, pk) })
					wr := outcomeBool(func() bool { return xmssjs.XMSSVerify(string(msg), render(sig, ms), render(pk[:], mp)) })
					c.Eval(1)
					if ms|mp != 0 || core == "true" {
						c.Nontrivial(1)
					}
					c.Outcome(core)
					if core != wr {
						c.Fail(i, fmt.Sprintf("XMSSVerify sig=%s pk=%s", modeName(ms), modeName(mp)), map[string]any{"case": what, "core": core, "wrapper": wr})
					}
					if i == int64(nflip)+7 {
						c.Sample(map[string]any{"case": what, "sig_rendering": modeName(ms), "pk_rendering": modeName(mp), "result": wr})
					}
				}
			}})
	}
	xv("xmss-verify-q", "q", 8)
	xv("xmss-verify-t", "t", 1)
	ck.Domains = append(ck.Domains, &drv.Domain{Name: "xmss-address", Size: 65536 * 4, Chunk: 4096, Desc: "IsValidXMSSAddress(hex) == core for all 65536 descriptor byte pairs x 4 renderings",
		Run: func(c *drv.Ctx, lo, hi int64) {
			for i := lo; i < hi; i++ {
				c.At(i)
				var a [20]byte
				a[0], a[1] = byte(i>>8), byte(i)
				copy(a[2:], seeds.Bytes(18, "xtail", c.Seed))
				m := int(i >> 16)
				core := outcomeBool(func() bool { return xmss.IsValidXMSSAddress(a) })
				wr := outcomeBool(func() bool { return xmssjs.IsValidXMSSAddress(render(a[:], m)) })
				c.Eval(1)
				if m != 0 || core == "true" {
					c.Nontrivial(1)
				}
				c.Outcome(core)
				if core != wr {
					c.Fail(i, "IsValidXMSSAddress rendering="+modeName(m), map[string]any{"address": hex.EncodeToString(a[:]), "core": core, "wrapper": wr})
				}
				if i == 65536*2+0x0102 {
					c.Sample(map[string]any{"address": render(a[:], m), "result": wr})
				}
			}
		}})
	ck.Domains = append(ck.Domains, &drv.Domain{Name: "xmss-addr-from-pk", Size: 65536, Chunk: 1024, Desc: "GetXMSSAddressFromPK(hex(pk)) decodes to the core address (or refuses with the core's own message) for all 65536 descriptor byte pairs, renderings rotating",
		Run: func(c *drv.Ctx, lo, hi int64) {
			for i := lo; i < hi; i++ {
				c.At(i)
				var pk [67]byte
				pk[0], pk[1] = byte(i>>8), byte(i)
				copy(pk[3:], seeds.Bytes(64, "xpk", c.Seed))
				m := int(i>>4) & 3
				core := outcomeStr(func() string { a := xmss.GetXMSSAddressFromPK(pk); return hex.EncodeToString(a[:]) })
				wr := outcomeStr(func() string { return strings.ToLower(stripOut(xmssjs.GetXMSSAddressFromPK(render(pk[:], m)))) })
				c.Eval(1)
				c.Nontrivial(1)
				c.Outcome(core[:6])
				if core != wr {
					c.Fail(i, "GetXMSSAddressFromPK rendering="+modeName(m), map[string]any{"pk": hex.EncodeToString(pk[:]), "core": core, "wrapper": wr})
				}
				if i == 0x0102 {
					c.Sample(map[string]any{"pk": render(pk[:], m), "result": wr})
				}
			}
		}})
	nonhex := []string{"zz", "0xzz", "abc", "0xabc", "ab cd", "0Xabcd", "0x0xabcd", "é", "0xé", "\x00\x01", "g0", "0xg0", " 00", "00 ", "0x 00", "00\n", "--", "0x-1", "1e5x", "०१", "ＡＢ", "0x", "x0", "0x0"}
	ck.Domains = append(ck.Domains, &drv.Domain{Name: "non-hex", Size: int64(len(nonhex)) * 7, Chunk: 7, Desc: "non-hexadecimal strings (odd length, inner space, 0X, double prefix, non-ASCII, control bytes ...) as signature / pk / address of every wrapper: false or \"\", never a failure",
		Run: func(c *drv.Ctx, lo, hi int64) {
			ks, xs := getD(c.Seed), getX(c.Seed)
			for i := lo; i < hi; i++ {
				c.At(i)
				s := nonhex[i/7]
				if s == "0x" {
					continue // "0x" is the empty byte string after prefix stripping: well-formed hex of the wrong length, outside the property
				}
				var got, want string
				goodSig, goodPK := hex.EncodeToString(ks[0].sig[0][:]), hex.EncodeToString(ks[0].pk[:])
				xSig, xPK := hex.EncodeToString(xs[0].sig), hex.EncodeToString(xs[0].pk[:])
				switch i % 7 {
				case 0:
					got, want = outcomeBool(func() bool { return dilithiumjs.DilithiumVerify(ks[0].msg[0], s, goodPK) }), "false"
				case 1:
					got, want = outcomeBool(func() bool { return dilithiumjs.DilithiumVerify(ks[0].msg[0], goodSig, s) }), "false"
				case 2:
					got, want = outcomeStr(func() string { return dilithiumjs.GetDilithiumAddressFromPK(s) }), "value:"
				case 3:
					got, want = outcomeBool(func() bool { return dilithiumjs.IsValidDilithiumAddress(s) }), "false"
				case 4:
					got, want = outcomeBool(func() bool {
						return xmssjs.XMSSVerify(string(xs[0].msg), s, xPK) && xmssjs.XMSSVerify(string(xs[0].msg), xSig, s)
					}), "false"
				case 5:
					got, want = outcomeStr(func() string { return xmssjs.GetXMSSAddressFromPK(s) }), "value:"
				case 6:
					got, want = outcomeBool(func() bool { return xmssjs.IsValidXMSSAddress(s) }), "false"
				}
				c.Eval(1)
				c.Nontrivial(1)
				c.Outcome(got)
				if got != want {
					c.Fail(i, fmt.Sprintf("non-hex wrapper#%d", i%7), map[string]any{"input": fmt.Sprintf("%q", s), "expected": want, "observed": got})
				}
				if i == 8 {
					c.Sample(map[string]any{"input": s, "wrapper": "DilithiumVerify(pk)", "result": got})
				}
			}
		}})
	suffixes := []string{"zz", "00zz", "0000\n", " ", "g", "\r\n", "00 ", "0x", "aaaaaaaazz"}
	ck.Domains = append(ck.Domains, &drv.Domain{Name: "non-hex-long", Size: int64(len(suffixes)) * 7 * 2 * 2, Chunk: 7, Desc: "well-formed full-length hex followed by a non-hex tail (zz, 00zz, newline, space, CRLF ...), once and doubled, with and without 0x, as signature / pk / address of every wrapper: false or \"\", never a failure",
		Run: func(c *drv.Ctx, lo, hi int64) {
			ks, xs := getD(c.Seed), getX(c.Seed)
			goodSig, goodPK := hex.EncodeToString(ks[0].sig[0][:]), hex.EncodeToString(ks[0].pk[:])
			xSig, xPK := hex.EncodeToString(xs[0].sig), hex.EncodeToString(xs[0].pk[:])
			dAddr := dilithium.GetDilithiumAddressFromPK(ks[0].pk)
			xAddr := xmss.GetXMSSAddressFromPK(xs[0].pk)
			for i := lo; i < hi; i++ {
				c.At(i)
				w := int(i % 7)
				suf := suffixes[i/7%int64(len(suffixes))]
				doubled, prefixed := i/7/int64(len(suffixes))%2 == 1, i/7/int64(len(suffixes))/2 == 1
				mk := func(good string) string {
					s := good + suf
					if doubled {
						s = good + good + suf
					}
					if prefixed {
						s = "0x" + s
					}
					return s
				}
				var got, want string
				switch w {
				case 0:
					got, want = outcomeBool(func() bool { return dilithiumjs.DilithiumVerify(ks[0].msg[0], mk(goodSig), goodPK) }), "false"
				case 1:
					got, want = outcomeBool(func() bool { return dilithiumjs.DilithiumVerify(ks[0].msg[0], goodSig, mk(goodPK)) }), "false"
				case 2:
					got, want = outcomeStr(func() string { return dilithiumjs.GetDilithiumAddressFromPK(mk(goodPK)) }), "value:"
				case 3:
					got, want = outcomeBool(func() bool { return dilithiumjs.IsValidDilithiumAddress(mk(hex.EncodeToString(dAddr[:]))) }), "false"
				case 4:
					got, want = outcomeBool(func() bool {
						return xmssjs.XMSSVerify(string(xs[0].msg), mk(xSig), xPK) || xmssjs.XMSSVerify(string(xs[0].msg), xSig, mk(xPK))
					}), "false"
				case 5:
					got, want = outcomeStr(func() string { return xmssjs.GetXMSSAddressFromPK(mk(xPK)) }), "value:"
				case 6:
					got, want = outcomeBool(func() bool { return xmssjs.IsValidXMSSAddress(mk(hex.EncodeToString(xAddr[:]))) }), "false"
				}
				c.Eval(1)
				c.Nontrivial(1)
				c.Outcome(got)
				if got != want {
					c.Fail(i, fmt.Sprintf("non-hex-long wrapper#%d", w), map[string]any{"tail": fmt.Sprintf("%q", suf), "doubled": doubled, "prefixed": prefixed, "expected": want, "observed": got})
				}
			}
		}})
	// every byte value at chosen positions of an otherwise well-formed hex argument
	ck.Domains = append(ck.Domains, &drv.Domain{Name: "byte-substitution", Size: 256 * 4 * 6, Chunk: 256,
		Desc: "every byte value 0..255 substituted at positions {0, 1, middle, last} of an otherwise well-formed hex argument of each wrapper (address validators, address derivation, verify pk): a hex digit gives the core's answer on the decoded bytes, anything else false / \"\"",
		Run: func(c *drv.Ctx, lo, hi int64) {
			ks, xs := getD(c.Seed), getX(c.Seed)
			dAddr := dilithium.GetDilithiumAddressFromPK(ks[0].pk)
			xAddr := xmss.GetXMSSAddressFromPK(xs[0].pk)
			goodSig := hex.EncodeToString(ks[0].sig[0][:])
			xSig := hex.EncodeToString(xs[0].sig)
			for i := lo; i < hi; i++ {
				c.At(i)
				b := byte(i)
				posSel, w := int(i/256%4), int(i/1024)
				var base string
				switch w {
				case 0, 1:
					base = hex.EncodeToString(dAddr[:])
					if w == 1 {
						base = hex.EncodeToString(xAddr[:])
					}
				case 2, 4:
					base = hex.EncodeToString(ks[0].pk[:])
				case 3, 5:
					base = hex.EncodeToString(xs[0].pk[:])
				}
				pos := []int{0, 1, len(base) / 2, len(base) - 1}[posSel]
				sb := []byte(base)
				sb[pos] = b
				str := string(sb)
				if strings.HasPrefix(str, "0x") {
					continue // the substitution created a 0x prefix: the rest is well-formed hex of the wrong length, outside the property
				}
				raw, err := hex.DecodeString(str)
				isHex := err == nil
				var got, want string
				switch w {
				case 0:
					got = outcomeBool(func() bool { return dilithiumjs.IsValidDilithiumAddress(str) })
					want = "false"
					if isHex {
						var a [20]byte
						copy(a[:], raw)
						want = fmt.Sprint(dilithium.IsValidDilithiumAddress(a))
					}
				case 1:
					got = outcomeBool(func() bool { return xmssjs.IsValidXMSSAddress(str) })
					want = "false"
					if isHex {
						var a [20]byte
						copy(a[:], raw)
						want = fmt.Sprint(xmss.IsValidXMSSAddress(a))
					}
				case 2:
					got = outcomeStr(func() string { return dilithiumjs.GetDilithiumAddressFromPK(str) })
					want = "value:"
					if isHex {
						var pk [dilithium.CryptoPublicKeyBytes]byte
						copy(pk[:], raw)
						a := dilithium.GetDilithiumAddressFromPK(pk)
						want = "value:0x" + hex.EncodeToString(a[:])
					}
				case 3:
					got = outcomeStr(func() string { return strings.ToLower(stripOut(xmssjs.GetXMSSAddressFromPK(str))) })
					want = "value:"
					if isHex {
						var pk [67]byte
						copy(pk[:], raw)
						want = outcomeStr(func() string { a := xmss.GetXMSSAddressFromPK(pk); return hex.EncodeToString(a[:]) })
					}
				case 4:
					got = outcomeBool(func() bool { return dilithiumjs.DilithiumVerify(ks[0].msg[0], goodSig, str) })
					want = "false"
					if isHex {
						var pk [dilithium.CryptoPublicKeyBytes]byte
						copy(pk[:], raw)
						want = fmt.Sprint(dilithium.Verify(ks[0].msg[0], ks[0].sig[0], &pk))
					}
				case 5:
					got = outcomeBool(func() bool { return xmssjs.XMSSVerify(string(xs[0].msg), xSig, str) })
					want = "false"
					if isHex {
						var pk [67]byte
						copy(pk[:], raw)
						want = outcomeBool(func() bool { return xmss.Verify(xs[0].msg, xs[0].sig, pk) })
					}
				}
				c.Eval(1)
				if !isHex {
					c.Nontrivial(1)
				}
				c.Outcome(fmt.Sprintf("hex=%v", isHex))
				if got != want {
					c.Fail(i, fmt.Sprintf("byte-substitution wrapper#%d hex=%v", w, isHex), map[string]any{"position": pos, "byte": fmt.Sprintf("0x%02x", b), "expected": want, "observed": got})
				}
			}
		}})
	// histories on the wrappers: good call, bad call, the SAME bad call again, good call again
	ck.Domains = append(ck.Domains, &drv.Domain{Name: "wrapper-histories", Size: int64(len(nonhex)) * 6, Chunk: 6,
		Desc: "for each wrapper and each non-hex string: well-formed call, non-hex call, the same non-hex call again, well-formed call again, then a well-formed call with a DIFFERENT message / key: every answer equals the core's (a memoised decode or a result cache shows here)",
		Run: func(c *drv.Ctx, lo, hi int64) {
			ks, xs := getD(c.Seed), getX(c.Seed)
			goodSig, goodPK := hex.EncodeToString(ks[0].sig[0][:]), hex.EncodeToString(ks[0].pk[:])
			pk2 := hex.EncodeToString(ks[1].pk[:])
			xSig, xPK := hex.EncodeToString(xs[0].sig), hex.EncodeToString(xs[0].pk[:])
			xPK2 := hex.EncodeToString(xs[1].pk[:])
			dAddr := dilithium.GetDilithiumAddressFromPK(ks[0].pk)
			dAddr2 := dilithium.GetDilithiumAddressFromPK(ks[1].pk)
			xAddr := xmss.GetXMSSAddressFromPK(xs[0].pk)
			xAddr2 := xmss.GetXMSSAddressFromPK(xs[1].pk)
			for i := lo; i < hi; i++ {
				c.At(i)
				bad := nonhex[i/6]
				if bad == "0x" {
					continue
				}
				var steps []string
				var wants []string
				st := func(got, want string) { steps = append(steps, got); wants = append(wants, want) }
				switch i % 6 {
				case 0:
					f := func(m []byte, sg, pk string) string {
						return outcomeBool(func() bool { return dilithiumjs.DilithiumVerify(m, sg, pk) })
					}
					st(f(ks[0].msg[0], goodSig, goodPK), "true")
					st(f(ks[0].msg[0], goodSig, bad), "false")
					st(f(ks[0].msg[0], goodSig, bad), "false")
					st(f(ks[0].msg[0], bad, goodPK), "false")
					st(f(ks[0].msg[0], goodSig, goodPK), "true")
					st(f(ks[0].msg[1], goodSig, goodPK), "false")
					st(f(ks[0].msg[0], goodSig, pk2), "false")
				case 1:
					f := func(pk string) string {
						return outcomeStr(func() string { return dilithiumjs.GetDilithiumAddressFromPK(pk) })
					}
					st(f(goodPK), "value:0x"+hex.EncodeToString(dAddr[:]))
					st(f(bad), "value:")
					st(f(bad), "value:")
					st(f(pk2), "value:0x"+hex.EncodeToString(dAddr2[:]))
					st(f(goodPK), "value:0x"+hex.EncodeToString(dAddr[:]))
				case 2:
					f := func(a string) string {
						return outcomeBool(func() bool { return dilithiumjs.IsValidDilithiumAddress(a) })
					}
					st(f(hex.EncodeToString(dAddr[:])), "true")
					st(f(bad), "false")
					st(f(bad), "false")
					st(f(hex.EncodeToString(xAddr[:])), "false")
				case 3:
					f := func(m, sg, pk string) string { return outcomeBool(func() bool { return xmssjs.XMSSVerify(m, sg, pk) }) }
					st(f(string(xs[0].msg), xSig, xPK), "true")
					st(f(string(xs[0].msg), xSig, bad), "false")
					st(f(string(xs[0].msg), xSig, bad), "false")
					st(f(string(xs[0].msg), bad, xPK), "false")
					st(f(string(xs[0].msg), xSig, xPK), "true")
					st(f(string(xs[0].msg)+"x", xSig, xPK), "false")
					st(f(string(xs[0].msg), xSig, xPK2), outcomeBool(func() bool { return xmss.Verify(xs[0].msg, xs[0].sig, xs[1].pk) }))
				case 4:
					f := func(pk string) string { return outcomeStr(func() string { return xmssjs.GetXMSSAddressFromPK(pk) }) }
					st(f(xPK), "value:"+hex.EncodeToString(xAddr[:]))
					st(f(bad), "value:")
					st(f(bad), "value:")
					st(f(xPK2), "value:"+hex.EncodeToString(xAddr2[:]))
				case 5:
					f := func(a string) string { return outcomeBool(func() bool { return xmssjs.IsValidXMSSAddress(a) }) }
					st(f(hex.EncodeToString(xAddr[:])), "true")
					st(f(bad), "false")
					st(f(bad), "false")
					st(f(hex.EncodeToString(dAddr[:])), "false")
				}
				c.Eval(int64(len(steps)))
				c.Nontrivial(1)
				c.Outcome("ok")
				for k := range steps {
					if steps[k] != wants[k] {
						c.Fail(i, fmt.Sprintf("wrapper-history wrapper#%d step=%d", i%6, k), map[string]any{"non_hex_input": fmt.Sprintf("%q", bad), "step": k, "expected": wants[k], "observed": steps[k], "all_steps": steps})
						break
					}
				}
			}
		}})
	// non-ASCII / non-UTF-8 messages through the string-typed XMSS wrapper
	umsgs := []string{"café", "€ 10", "\xff\xfe", "naïve \x00 null", "日本語", "\x80"}
	ck.Domains = append(ck.Domains, &drv.Domain{Name: "xmss-message-bytes", Size: int64(len(umsgs)) * 2, Chunk: 2,
		Desc: "XMSSVerify takes the message as a string: signatures over non-ASCII and invalid-UTF-8 messages (signed by the core over the string's bytes) must verify through the wrapper, and a signature over the one-byte-per-rune narrowing of the message must not",
		Run: func(c *drv.Ctx, lo, hi int64) {
			for i := lo; i < hi; i++ {
				c.At(i)
				m := umsgs[i/2]
				k := xmss.NewXMSSFromSeed(seeds.Seed48(3, c.Seed), 4, xmss.SHAKE_128, common.SHA256_2X)
				pk := k.GetPK()
				signed := []byte(m)
				if i%2 == 1 {
					signed = nil
					for _, r := range m {
						signed = append(signed, byte(r))
					}
				}
				sig, _ := k.Sign(signed)
				core := outcomeBool(func() bool { return xmss.Verify([]byte(m), sig, pk) })
				wr := outcomeBool(func() bool { return xmssjs.XMSSVerify(m, hex.EncodeToString(sig), hex.EncodeToString(pk[:])) })
				c.Eval(1)
				c.Nontrivial(1)
				c.Outcome(core)
				if core != wr {
					c.Fail(i, "xmss-message-bytes", map[string]any{"message": fmt.Sprintf("%q", m), "signed_bytes": drv.Hex(signed), "core": core, "wrapper": wr})
				}
			}
		}})
	// messages that look like the other (hex) arguments
	var shaped []string
	for _, pre := range []string{"0x", "0X", "0x0x", "0x0X", "x", "00", " 0x"} {
		for _, body := range []string{"", "abc", "deadbeef", "0xabc", "00", "g", "0x"} {
			shaped = append(shaped, pre+body)
		}
	}
	ck.Domains = append(ck.Domains, &drv.Domain{Name: "message-shapes", Size: int64(len(shaped)) * 3, Chunk: 3,
		Desc: "the message is TEXT, not hex: messages that start with 0x / 0X / 0x0x / look like hex digits (7 prefixes x 7 bodies), through XMSSVerify and DilithiumVerify: (0) the signature over the message verifies, (1) the signature over the message with its first two characters removed does not, (2) the signature over \"0x\"+message does not — wrapper == core in all three",
		Run: func(c *drv.Ctx, lo, hi int64) {
			k := xmss.NewXMSSFromSeed(seeds.Seed48(3, c.Seed), 4, xmss.SHAKE_128, common.SHA256_2X)
			pk := k.GetPK()
			ks := getD(c.Seed)
			dpk := ks[0].d.GetPK()
			for i := lo; i < hi; i++ {
				c.At(i)
				m := shaped[i/3]
				signed := m
				switch i % 3 {
				case 1:
					if len(m) >= 2 {
						signed = m[2:]
					}
				case 2:
					signed = "0x" + m
				}
				if k.GetIndex() >= 15 {
					k = xmss.NewXMSSFromSeed(seeds.Seed48(3, c.Seed), 4, xmss.SHAKE_128, common.SHA256_2X)
				}
				sig, _ := k.Sign([]byte(signed))
				core := outcomeBool(func() bool { return xmss.Verify([]byte(m), sig, pk) })
				wr := outcomeBool(func() bool { return xmssjs.XMSSVerify(m, "0x"+hex.EncodeToString(sig), hex.EncodeToString(pk[:])) })
				dsig, _ := ks[0].d.Sign([]byte(signed))
				dcore := outcomeBool(func() bool { return dilithium.Verify([]byte(m), dsig, &dpk) })
				dwr := outcomeBool(func() bool {
					return dilithiumjs.DilithiumVerify([]byte(m), hex.EncodeToString(dsig[:]), "0x"+hex.EncodeToString(dpk[:]))
				})
				c.Eval(2)
				c.Nontrivial(2)
				c.Outcome(core + "/" + dcore)
				if core != wr || (signed == m) != (core == "true") {
					c.Fail(i, "xmss-message-shape", map[string]any{"message": fmt.Sprintf("%q", m), "signed_text": fmt.Sprintf("%q", signed), "core": core, "wrapper": wr})
				}
				if dcore != dwr || (signed == m) != (dcore == "true") {
					c.Fail(i, "dilithium-message-shape", map[string]any{"message": fmt.Sprintf("%q", m), "signed_text": fmt.Sprintf("%q", signed), "core": dcore, "wrapper": dwr})
				}
			}
		}})
	// every height a wallet can realistically hold, through the string wrappers
	wh := []uint8{4, 6, 8, 10}
	ck.Domains = append(ck.Domains, &drv.Domain{Name: "wrapper-heights", Size: int64(len(wh)) * 3, Chunk: 1,
		Desc: "real keys of height 4, 6, 8, 10 x 3 hash functions through XMSSVerify / GetXMSSAddressFromPK / IsValidXMSSAddress (valid signature at the first and at a late index, tampered signature, signature of a lower height's length): wrapper == core",
		Run: func(c *drv.Ctx, lo, hi int64) {
			for i := lo; i < hi; i++ {
				c.At(i)
				h, hf := wh[i/3], int(i%3)
				k := xmss.NewXMSSFromSeed(seeds.Seed48(3+hf, c.Seed), h, xmss.HashFunction(hf), common.SHA256_2X)
				c.Tick()
				pk := k.GetPK()
				msg := "wrapper heights"
				s0, _ := k.Sign([]byte(msg))
				k.SetIndex(uint32(1)<<h - 2)
				s1, _ := k.Sign([]byte(msg))
				bad := append([]byte(nil), s1...)
				bad[len(bad)-1] ^= 1
				short := s1[:len(s1)-64]
				for n, sg := range [][]byte{s0, s1, bad, short} {
					sg := sg
					core := outcomeBool(func() bool { return xmss.Verify([]byte(msg), sg, pk) })
					wr := outcomeBool(func() bool { return xmssjs.XMSSVerify(msg, hex.EncodeToString(sg), "0x"+hex.EncodeToString(pk[:])) })
					c.Eval(1)
					c.Nontrivial(1)
					if core != wr || (n < 2) != (core == "true") {
						c.Fail(i, "wrapper-heights:verify", map[string]any{"height": h, "hash": hf, "case": []string{"first index", "late index", "tampered", "64 bytes short"}[n], "core": core, "wrapper": wr})
					}
				}
				ad := k.GetAddress()
				wa := xmssjs.GetXMSSAddressFromPK(hex.EncodeToString(pk[:]))
				if strings.TrimPrefix(wa, "0x") != hex.EncodeToString(ad[:]) || !xmssjs.IsValidXMSSAddress(wa) {
					c.Fail(i, "wrapper-heights:address", map[string]any{"height": h, "hash": hf, "core": hex.EncodeToString(ad[:]), "wrapper": wa})
				}
				c.Outcome("compared")
			}
		}})
	// heights in descending order through the XMSS wrapper; empty message with rejected signatures through the Dilithium wrapper;
	// public keys with a non-zero reserved descriptor byte
	ck.Domains = append(ck.Domains, &drv.Domain{Name: "wrapper-relations", Size: 3, Chunk: 1, Desc: "(0) XMSSVerify on signatures of heights 6,4,6,4 (3 hash functions) in one process; (1) DilithiumVerify with the EMPTY / nil message against valid, tampered, foreign and all-zero signatures; (2) GetXMSSAddressFromPK on public keys whose third descriptor byte is 01 / FF",
		Run: func(c *drv.Ctx, lo, hi int64) {
			for i := lo; i < hi; i++ {
				c.At(i)
				switch i {
				case 0:
					type kk struct {
						pk  [67]byte
						sig []byte
					}
					var ks []kk
					for _, h := range []uint8{6, 4} {
						for hf := 0; hf < 3; hf++ {
							k := xmss.NewXMSSFromSeed(seeds.Seed48(3+hf, c.Seed), h, xmss.HashFunction(hf), common.SHA256_2X)
							sg, _ := k.Sign([]byte("heights"))
							ks = append(ks, kk{k.GetPK(), sg})
						}
					}
					for round := 0; round < 2; round++ {
						for n, k := range ks {
							core := outcomeBool(func() bool { return xmss.Verify([]byte("heights"), k.sig, k.pk) })
							wr := outcomeBool(func() bool {
								return xmssjs.XMSSVerify("heights", hex.EncodeToString(k.sig), hex.EncodeToString(k.pk[:]))
							})
							c.Eval(1)
							if core != wr || core != "true" {
								c.Fail(i, "xmss-heights-sequence", map[string]any{"round": round, "key": n, "core": core, "wrapper": wr})
							}
						}
					}
					c.Nontrivial(1)
				case 1:
					ks := getD(c.Seed)
					for _, msg := range [][]byte{{}, nil} {
						good, _ := ks[0].d.Sign(msg)
						bad := good
						bad[10] ^= 1
						var zero [dilithium.CryptoBytes]byte
						for n, sg := range [][dilithium.CryptoBytes]byte{good, bad, ks[0].sig[0], zero} {
							sg := sg
							core := outcomeBool(func() bool { return dilithium.Verify(msg, sg, &ks[0].pk) })
							wr := outcomeBool(func() bool {
								return dilithiumjs.DilithiumVerify(msg, hex.EncodeToString(sg[:]), hex.EncodeToString(ks[0].pk[:]))
							})
							c.Eval(1)
							if core != wr {
								c.Fail(i, "dilithium-empty-message", map[string]any{"signature_variant": n, "message_nil": msg == nil, "core": core, "wrapper": wr})
							}
						}
					}
					c.Nontrivial(1)
				case 2:
					xs := getX(c.Seed)
					for _, b2 := range []byte{1, 0xFF, 0x80} {
						pk := xs[0].pk
						pk[2] = b2
						core := outcomeStr(func() string { a := xmss.GetXMSSAddressFromPK(pk); return hex.EncodeToString(a[:]) })
						wr := outcomeStr(func() string {
							return strings.ToLower(stripOut(xmssjs.GetXMSSAddressFromPK(hex.EncodeToString(pk[:]))))
						})
						c.Eval(1)
						if core != wr {
							c.Fail(i, "xmss-address-reserved-descriptor-byte", map[string]any{"byte2": b2, "core": core, "wrapper": wr})
						}
					}
					c.Nontrivial(1)
				}
				c.Outcome("ok")
			}
		}})
	drv.Main(ck)
}
