// grindchallenge enumerates the challenge seeds LE64(i)||0^24 for i < 2^n and keeps those whose
// SampleInBall stream rejects the most candidate positions (the seeds that read furthest into the XOF output).
// Exhaustive over the counter range; the output is the committed corpus corpus/challenge-seeds.jsonl.
//
//	go run ./cmd/grindchallenge -n 30 -keep 96 > ../corpus/challenge-seeds.jsonl
package main

import (
	"encoding/binary"
	"encoding/hex"
	"flag"
	"fmt"
	"sort"
	"sync"

	"golang.org/x/crypto/sha3"
)

type hit struct {
	i        uint64
	consumed int // bytes of XOF output read (8 sign bytes + accepted + rejected positions)
}

func consumed(seed []byte, buf []byte) int {
	h := sha3.NewShake256()
	h.Write(seed)
	h.Read(buf)
	pos := 8
	for i := 256 - 60; i < 256; i++ {
		for {
			if pos >= len(buf) {
				return pos + 1000 // beyond the scanned window: (astronomically unlikely) report as huge
			}
			b := int(buf[pos])
			pos++
			if b <= i {
				break
			}
		}
	}
	return pos
}

func main() {
	n := flag.Int("n", 28, "log2 of the counter range")
	keep := flag.Int("keep", 96, "seeds to keep")
	flag.Parse()
	total := uint64(1) << uint(*n)
	const W = 16
	var mu sync.Mutex
	var all []hit
	var wg sync.WaitGroup
	for w := 0; w < W; w++ {
		wg.Add(1)
		go func(w int) {
			defer wg.Done()
			var local []hit
			seed := make([]byte, 32)
			buf := make([]byte, 272)
			thr := 8 + 60 + 24
			for i := uint64(w); i < total; i += W {
				binary.LittleEndian.PutUint64(seed, i)
				if c := consumed(seed, buf); c >= thr {
					local = append(local, hit{i, c})
					if len(local) > 4**keep {
						sort.Slice(local, func(a, b int) bool { return local[a].consumed > local[b].consumed })
						local = local[:*keep]
						thr = local[len(local)-1].consumed
					}
				}
			}
			mu.Lock()
			all = append(all, local...)
			mu.Unlock()
		}(w)
	}
	wg.Wait()
	sort.Slice(all, func(a, b int) bool {
		if all[a].consumed != all[b].consumed {
			return all[a].consumed > all[b].consumed
		}
		return all[a].i < all[b].i
	})
	if len(all) > *keep {
		all = all[:*keep]
	}
	for _, h := range all {
		seed := make([]byte, 32)
		binary.LittleEndian.PutUint64(seed, h.i)
		fmt.Printf("{\"seed\":\"%s\",\"counter\":%d,\"xof_bytes_read\":%d,\"rejected_positions\":%d}\n", hex.EncodeToString(seed), h.i, h.consumed, h.consumed-68)
	}
}
