// Package dilscope defines the fixed (seed, message) scope shared by the Dilithium checks.
package dilscope

import (
	"fmt"

	"verifmc/seeds"
)

// Seed i of the scope: 0 zeros, 1 FF, 2 counter, >=3 derived from VERIF_SEED.
func Seed(i int, vseed int64) [48]byte { return seeds.Seed48(i, vseed) }

var Lengths = []int{0, 1, 7, 31, 32, 33, 135, 136, 137, 271, 272, 273, 4595, 10000}

// Msg j of the scope: 14 lengths x 2 fills.
func Msg(j int, vseed int64) []byte {
	n := Lengths[j%len(Lengths)]
	b := make([]byte, n)
	if j/len(Lengths)%2 == 0 {
		for i := range b {
			b[i] = byte(i*13 + j)
		}
	} else {
		copy(b, seeds.Bytes(n, fmt.Sprintf("msg-%d", j), vseed))
	}
	return b
}

const NMsgs = 28
