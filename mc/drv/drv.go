// Package drv is the generic sharded driver shared by all checks: a check registers finite,
// deterministic, indexable domains; the master process re-executes itself as worker
// sub-processes, each worker runs the chunks assigned to it, and the master merges the counts,
// writes the evidence file, re-runs every reported failure 5x in a fresh process, matches it
// against known_findings.json and prints VIOLATION / KNOWN-FINDING lines.
//
// Exit codes: 0 held on everything explored, 1 violation, 2 infrastructure failure.
package drv

import (
	"crypto/sha256"
	"encoding/hex"
	"encoding/json"
	"flag"
	"fmt"
	"os"
	"os/exec"
	"path/filepath"
	"regexp"
	"runtime"
	"sort"
	"strings"
	"sync/atomic"
	"time"
)

// Domain is one finite enumerated space. Run must evaluate every index in [lo,hi) and be
// deterministic given (tier, seed, index).
type Domain struct {
	Name  string
	Desc  string
	Size  int64
	Chunk int64 // indices per work unit (default: Size/ (16*8) rounded up, min 1)
	// Tiers in which this domain runs: "q" quick only, "t" thorough only, "" both.
	Tier string
	Run  func(c *Ctx, lo, hi int64)
	// Exhaustive=false marks a domain that is a capped part of a larger stated space.
	NotExhaustive string
}

type Failure struct {
	Domain  string         `json:"domain"`
	Index   int64          `json:"index"`
	Key     string         `json:"key"`
	Details map[string]any `json:"details"`
	// worker shard that found it: a history-dependent failure is replayed by re-running that shard up to the case
	Shard int `json:"shard"`
	Of    int `json:"of"`
}

type DomStats = domStats

type domStats struct {
	Name       string                     `json:"domain"`
	Desc       string                     `json:"desc,omitempty"`
	Size       int64                      `json:"size"`
	Completed  int64                      `json:"completed"`
	Evals      int64                      `json:"evaluations"`
	Nontrivial int64                      `json:"nontrivial"`
	Outcomes   map[string]int64           `json:"outcomes"`
	Counters   map[string]int64           `json:"counters,omitempty"`
	Samples    []any                      `json:"samples,omitempty"`
	Warnings   []string                   `json:"warnings,omitempty"`
	NotExh     string                     `json:"not_exhaustive,omitempty"`
	Sets       map[string]map[string]bool `json:"sets,omitempty"`
}

type Ctx struct {
	Tier   string
	Seed   int64
	Replay bool
	cur    *domStats
	fails  *[]Failure
	at     *int64
	curDom string
}

// At records progress (watchdog) and the case about to run.
func (c *Ctx) At(i int64) { atomic.StoreInt64(c.at, i); atomic.AddInt64(&ticks, 1) }

// Tick tells the watchdog that a long case is still making progress.
func (c *Ctx) Tick() { atomic.AddInt64(&ticks, 1) }

var ticks int64

// maxReported bounds the number of violations that are written out, re-run and printed per run (all are counted).
var maxReported = 4

// Cap records that a cap (time budget, execution limit) was hit: the run is then reported as not exhaustive.
func (c *Ctx) Cap(reason string) { c.Count("cap:"+reason, 1) }

// FailCount returns the number of failures recorded by this worker so far.
func (c *Ctx) FailCount() int { return len(*c.fails) }

func (c *Ctx) Eval(n int64)       { c.cur.Evals += n }
func (c *Ctx) Nontrivial(n int64) { c.cur.Nontrivial += n }
func (c *Ctx) Outcome(s string) {
	if len(c.cur.Outcomes) < 512 || c.cur.Outcomes[s] > 0 {
		c.cur.Outcomes[s]++
	} else {
		c.cur.Outcomes["<other>"]++
	}
}
func (c *Ctx) Count(name string, n int64) {
	if c.cur.Counters == nil {
		c.cur.Counters = map[string]int64{}
	}
	c.cur.Counters[name] += n
}

// Max keeps the maximum of a named counter.
func (c *Ctx) Max(name string, n int64) {
	if c.cur.Counters == nil {
		c.cur.Counters = map[string]int64{}
	}
	if v, ok := c.cur.Counters["max:"+name]; !ok || n > v {
		c.cur.Counters["max:"+name] = n
	}
}

// SetAdd adds a member to a named set (merged by union across workers); used for path coverage.
func (c *Ctx) SetAdd(set, member string) {
	if c.cur.Sets == nil {
		c.cur.Sets = map[string]map[string]bool{}
	}
	if c.cur.Sets[set] == nil {
		c.cur.Sets[set] = map[string]bool{}
	}
	if len(c.cur.Sets[set]) < 4096 {
		c.cur.Sets[set][member] = true
	}
}
func (c *Ctx) Sample(v any) {
	if len(c.cur.Samples) < 2 {
		c.cur.Samples = append(c.cur.Samples, v)
	}
}
func (c *Ctx) Warn(s string) {
	if len(c.cur.Warnings) < 20 {
		c.cur.Warnings = append(c.cur.Warnings, s)
	}
	if c.Replay {
		fmt.Println("warning:", s)
	}
}
func (c *Ctx) Fail(idx int64, key string, details map[string]any) {
	if len(*c.fails) < 200 {
		*c.fails = append(*c.fails, Failure{Domain: c.curDom, Index: idx, Key: key, Details: details})
	}
	if c.Replay {
		b, _ := json.MarshalIndent(details, "", " ")
		fmt.Printf("FAIL domain=%s index=%d key=%s\n%s\n", c.curDom, idx, key, b)
	}
}
func (c *Ctx) Logf(f string, a ...any) {
	if c.Replay {
		fmt.Printf(f+"\n", a...)
	}
}

type workerOut struct {
	Stats []*domStats `json:"stats"`
	Fails []Failure   `json:"fails"`
	Hang  *Failure    `json:"hang,omitempty"`
}

type Check struct {
	Property    string
	Level       string
	Rule        string
	Assumptions []string
	Domains     []*Domain
	// Optional: called in the master after merge to add coverage keys
	// (states, transitions, traces_validated_against_impl, ...) from merged counters.
	Finish func(cov map[string]any, merged map[string]*domStats)
	// Horizon per case for the watchdog (default 120 s).
	Horizon time.Duration
	only    string
}

type knownFinding struct {
	Property string `json:"property"`
	Status   string `json:"status"`
	Commit   string `json:"commit"`
	Match    struct {
		Domain string `json:"domain"`
		KeyRe  string `json:"key_regex"`
	} `json:"match"`
	What string `json:"what"`
}

func (ck *Check) active(tier string) []*Domain {
	var out []*Domain
	for _, d := range ck.Domains {
		if d.Tier == "" || (d.Tier == "q" && tier == "quick") || (d.Tier == "t" && tier == "thorough") {
			if d.Chunk <= 0 {
				d.Chunk = (d.Size + 16*8 - 1) / (16 * 8)
				if d.Chunk < 1 {
					d.Chunk = 1
				}
			}
			out = append(out, d)
		}
	}
	return out
}

func Main(ck *Check) {
	tier := flag.String("tier", "quick", "quick|thorough")
	evidence := flag.String("evidence", "", "evidence file to write")
	replays := flag.String("replays", "", "directory for replay artefacts")
	known := flag.String("known", "", "known_findings.json")
	replay := flag.String("replay", "", "replay artefact to re-execute")
	worker := flag.Int("worker", -1, "internal: worker shard")
	nworkers := flag.Int("of", 0, "internal: number of shards")
	out := flag.String("out", "", "internal: worker output file")
	workers := flag.Int("workers", 0, "number of worker processes (default NumCPU)")
	repoHead := flag.String("repohead", "", "informational: repo HEAD")
	only := flag.String("only", "", "run only domains whose name matches this regexp (debug)")
	flag.BoolVar(&historyOnly, "history", false, "internal: replay by re-running the worker shard up to the case")
	flag.Parse()
	seed := int64(0)
	if s := os.Getenv("VERIF_SEED"); s != "" {
		fmt.Sscan(s, &seed)
	}
	if ck.Horizon == 0 {
		// no-progress horizon: far above the slowest legitimate case even on a loaded machine
		ck.Horizon = 10 * time.Minute
	}
	ck.only = *only
	if *only != "" {
		re := regexp.MustCompile(*only)
		var ds []*Domain
		for _, d := range ck.Domains {
			if re.MatchString(d.Name) {
				ds = append(ds, d)
			}
		}
		ck.Domains = ds
	}
	if *replay != "" {
		os.Exit(ck.doReplay(*replay, seed))
	}
	if *worker >= 0 {
		ck.runWorker(*tier, seed, *worker, *nworkers, *out)
		return
	}
	os.Exit(ck.master(*tier, seed, *evidence, *replays, *known, *workers, *repoHead))
}

func newStats(d *Domain) *domStats {
	return &domStats{Name: d.Name, Desc: d.Desc, Size: d.Size, Outcomes: map[string]int64{}, NotExh: d.NotExhaustive}
}

func (ck *Check) runWorker(tier string, seed int64, shard, of int, outPath string) {
	runtime.GOMAXPROCS(2)
	var fails []Failure
	var at int64 = -1
	var res workerOut
	var curName atomic.Value
	curName.Store("")
	done := make(chan struct{})
	var progress int64
	go func() {
		defer close(done)
		fails = ck.runShard(tier, seed, shard, of, "", -1, &res, &at, func(n string) { curName.Store(n); atomic.AddInt64(&progress, 1) })
	}()
	// watchdog: no change of (at, progress) for Horizon => hang at case `at`.
	lastAt, lastP := int64(-2), int64(-1)
	lastChange := time.Now()
	tick := time.NewTicker(500 * time.Millisecond)
	defer tick.Stop()
loop:
	for {
		select {
		case <-done:
			break loop
		case <-tick.C:
			a, p := atomic.LoadInt64(&at), atomic.LoadInt64(&progress)+atomic.LoadInt64(&ticks)
			if a != lastAt || p != lastP {
				lastAt, lastP, lastChange = a, p, time.Now()
			} else if time.Since(lastChange) > ck.Horizon {
				res.Hang = &Failure{Domain: curName.Load().(string), Index: a, Key: "hang",
					Details: map[string]any{"observed": fmt.Sprintf("no progress for %v at this case", ck.Horizon)}}
				break loop
			}
		}
	}
	res.Fails = fails
	b, err := json.Marshal(&res)
	if err != nil {
		fmt.Fprintln(os.Stderr, "worker marshal:", err)
		os.Exit(2)
	}
	if err := os.WriteFile(outPath, b, 0o644); err != nil {
		fmt.Fprintln(os.Stderr, "worker write:", err)
		os.Exit(2)
	}
	os.Exit(0)
}

// runShard runs the chunks of worker shard/of in order; stopDomain/stopIndex (if set) end the run after that case's chunk.
func (ck *Check) runShard(tier string, seed int64, shard, of int, stopDomain string, stopIndex int64, res *workerOut, at *int64, progress func(string)) []Failure {
	var fails []Failure
	var dummyAt int64
	if at == nil {
		at = &dummyAt
	}
	unit := 0
	for _, d := range ck.active(tier) {
		st := newStats(d)
		if res != nil {
			res.Stats = append(res.Stats, st)
		}
		c := &Ctx{Tier: tier, Seed: seed, cur: st, fails: &fails, at: at, curDom: d.Name}
		if progress != nil {
			progress(d.Name)
		}
		for lo := int64(0); lo < d.Size; lo += d.Chunk {
			hi := lo + d.Chunk
			if hi > d.Size {
				hi = d.Size
			}
			mine := unit%of == shard
			unit++
			if !mine {
				continue
			}
			atomic.StoreInt64(at, lo)
			t0 := time.Now()
			d.Run(c, lo, hi)
			if os.Getenv("VERIF_TIMING") != "" && time.Since(t0) > 200*time.Millisecond {
				fmt.Fprintf(os.Stderr, "TIMING %s [%d,%d) %.1fs\n", d.Name, lo, hi, time.Since(t0).Seconds())
			}
			st.Completed += hi - lo
			if progress != nil {
				progress(d.Name)
			}
			if d.Name == stopDomain && stopIndex >= lo && stopIndex < hi {
				return fails
			}
		}
	}
	return fails
}

var historyOnly bool

func (ck *Check) doReplay(path string, seed int64) int {
	b, err := os.ReadFile(path)
	if err != nil {
		fmt.Fprintln(os.Stderr, "replay:", err)
		return 2
	}
	var art struct {
		Property string  `json:"property"`
		Tier     string  `json:"tier"`
		Seed     int64   `json:"seed"`
		Case     Failure `json:"case"`
	}
	if err := json.Unmarshal(b, &art); err != nil {
		fmt.Fprintln(os.Stderr, "replay:", err)
		return 2
	}
	for _, d := range ck.active(art.Tier) {
		if d.Name != art.Case.Domain {
			continue
		}
		var fails []Failure
		var at int64
		st := newStats(d)
		c := &Ctx{Tier: art.Tier, Seed: art.Seed, Replay: true, cur: st, fails: &fails, at: &at, curDom: d.Name}
		fmt.Printf("replaying property=%s domain=%s index=%d tier=%s seed=%d\n", ck.Property, d.Name, art.Case.Index, art.Tier, art.Seed)
		if !historyOnly {
			d.Run(c, art.Case.Index, art.Case.Index+1)
		}
		for _, f := range fails {
			if f.Key == art.Case.Key {
				fmt.Printf("REPRODUCED key=%s\n", f.Key)
				return 1
			}
		}
		if len(fails) > 0 {
			fmt.Printf("DIFFERENT-FAILURE keys=%v\n", failKeys(fails))
			return 1
		}
		if art.Case.Of > 0 && !historyOnly {
			// history-dependent? re-run the worker shard that found it in a FRESH process (this one already ran the case)
			self, _ := os.Executable()
			cmd := exec.Command(self, "-replay", path, "-history")
			cmd.Stdout, cmd.Stderr = os.Stdout, os.Stderr
			cmd.Env = os.Environ()
			if err := cmd.Run(); err != nil {
				if ee, ok := err.(*exec.ExitError); ok {
					return ee.ExitCode()
				}
				return 2
			}
			return 0
		}
		if art.Case.Of > 0 && historyOnly {
			fmt.Printf("case alone passes; re-running worker shard %d/%d up to the case (history-dependent failures)\n", art.Case.Shard, art.Case.Of)
			fs := ck.runShard(art.Tier, art.Seed, art.Case.Shard, art.Case.Of, art.Case.Domain, art.Case.Index, nil, nil, nil)
			for _, f := range fs {
				if f.Key == art.Case.Key && f.Domain == art.Case.Domain && f.Index == art.Case.Index {
					fmt.Printf("REPRODUCED-WITH-HISTORY key=%s (the case fails only after the preceding cases of its shard ran in the same process)\n", f.Key)
					return 1
				}
			}
		}
		fmt.Println("NOT-REPRODUCED: case passes on this tree")
		return 0
	}
	fmt.Fprintln(os.Stderr, "replay: unknown domain", art.Case.Domain)
	return 2
}

func failKeys(fs []Failure) []string {
	var k []string
	for _, f := range fs {
		k = append(k, f.Key)
	}
	return k
}

func (ck *Check) master(tier string, seed int64, evidence, replays, known string, nw int, repoHead string) int {
	start := time.Now()
	if nw <= 0 {
		nw = runtime.NumCPU()
		if nw > 16 {
			nw = 16
		}
	}
	doms := ck.active(tier)
	if len(doms) == 0 {
		fmt.Fprintln(os.Stderr, "no domains for tier", tier)
		return 2
	}
	tmp, err := os.MkdirTemp("", "verif-w-")
	if err != nil {
		fmt.Fprintln(os.Stderr, err)
		return 2
	}
	defer os.RemoveAll(tmp)
	self, _ := os.Executable()
	type wres struct {
		i      int
		err    error
		stderr string
		out    workerOut
	}
	ch := make(chan wres, nw)
	for i := 0; i < nw; i++ {
		go func(i int) {
			outp := filepath.Join(tmp, fmt.Sprintf("w%d.json", i))
			args := []string{"-tier", tier, "-worker", fmt.Sprint(i), "-of", fmt.Sprint(nw), "-out", outp}
			if ck.only != "" {
				args = append(args, "-only", ck.only)
			}
			cmd := exec.Command(self, args...)
			var eb strings.Builder
			cmd.Stderr = &eb
			cmd.Stdout = &eb
			cmd.Env = append(os.Environ(), fmt.Sprintf("VERIF_SEED=%d", seed))
			e := cmd.Run()
			r := wres{i: i, err: e, stderr: eb.String()}
			if e == nil {
				b, e2 := os.ReadFile(outp)
				if e2 != nil {
					r.err = e2
				} else if e3 := json.Unmarshal(b, &r.out); e3 != nil {
					r.err = e3
				}
			}
			ch <- r
		}(i)
	}
	merged := map[string]*domStats{}
	var order []string
	for _, d := range doms {
		merged[d.Name] = newStats(d)
		order = append(order, d.Name)
	}
	var fails []Failure
	infra := ""
	for i := 0; i < nw; i++ {
		r := <-ch
		if r.err != nil {
			tail := r.stderr
			if len(tail) > 6000 {
				tail = tail[:3000] + "\n...\n" + tail[len(tail)-3000:]
			}
			infra += fmt.Sprintf("worker %d died: %v\n%s\n", r.i, r.err, tail)
			continue
		}
		if os.Getenv("VERIF_TIMING") != "" {
			for _, l := range strings.Split(r.stderr, "\n") {
				if strings.HasPrefix(l, "TIMING") {
					fmt.Println(l)
				}
			}
		}
		for _, s := range r.out.Stats {
			m := merged[s.Name]
			m.Completed += s.Completed
			m.Evals += s.Evals
			m.Nontrivial += s.Nontrivial
			for k, v := range s.Outcomes {
				m.Outcomes[k] += v
			}
			for k, v := range s.Counters {
				if m.Counters == nil {
					m.Counters = map[string]int64{}
				}
				if strings.HasPrefix(k, "max:") {
					if old, ok := m.Counters[k]; !ok || v > old {
						m.Counters[k] = v
					}
				} else {
					m.Counters[k] += v
				}
			}
			for set, mem := range s.Sets {
				if m.Sets == nil {
					m.Sets = map[string]map[string]bool{}
				}
				if m.Sets[set] == nil {
					m.Sets[set] = map[string]bool{}
				}
				for k := range mem {
					m.Sets[set][k] = true
				}
			}
			if len(m.Samples) < 2 {
				m.Samples = append(m.Samples, s.Samples...)
				if len(m.Samples) > 2 {
					m.Samples = m.Samples[:2]
				}
			}
			m.Warnings = append(m.Warnings, s.Warnings...)
		}
		for k := range r.out.Fails {
			r.out.Fails[k].Shard, r.out.Fails[k].Of = r.i, nw
		}
		fails = append(fails, r.out.Fails...)
		if r.out.Hang != nil {
			fails = append(fails, *r.out.Hang)
		}
	}
	if infra != "" {
		// A worker that died with a Go fatal error inside library code is a library crash, not
		// an infrastructure problem; anything else is infrastructure.
		if strings.Contains(infra, "go-qrllib") && (strings.Contains(infra, "fatal error:") || strings.Contains(infra, "panic:")) {
			fails = append(fails, Failure{Domain: "worker-crash", Index: -1, Key: "worker-crash",
				Details: map[string]any{"stderr": infra}})
		} else {
			fmt.Fprintln(os.Stderr, "INFRASTRUCTURE:", infra)
			return 2
		}
	}
	sort.SliceStable(fails, func(i, j int) bool {
		if fails[i].Domain != fails[j].Domain {
			return fails[i].Domain < fails[j].Domain
		}
		return fails[i].Index < fails[j].Index
	})

	// known findings
	var kfs []knownFinding
	if known != "" {
		if b, err := os.ReadFile(known); err == nil {
			if err := json.Unmarshal(b, &kfs); err != nil {
				fmt.Fprintln(os.Stderr, "known findings unreadable:", err)
				return 2
			}
		}
	}
	violations := 0
	unreproduced := 0
	printed := 0
	knownSeen := map[string]bool{}
	reported := map[string]bool{}
	for _, f := range fails {
		isKnown := false
		for _, k := range kfs {
			if k.Property != ck.Property || k.Status != "open" {
				continue
			}
			if k.Match.Domain != "" && k.Match.Domain != f.Domain {
				continue
			}
			if ok, _ := regexp.MatchString(k.Match.KeyRe, f.Key); ok && k.Match.KeyRe != "" {
				isKnown = true
				if !knownSeen[k.What] {
					knownSeen[k.What] = true
					fmt.Printf("KNOWN-FINDING: property=%s %s\n", ck.Property, k.What)
				}
			}
		}
		if isKnown {
			continue
		}
		violations++
		if reported[f.Domain+"|"+f.Key] || printed >= maxReported {
			continue
		}
		reported[f.Domain+"|"+f.Key] = true
		// write the artefact, re-run 5x
		art := map[string]any{"property": ck.Property, "tier": tier, "seed": seed, "repo_head": repoHead, "case": f}
		ab, _ := json.MarshalIndent(art, "", " ")
		h := sha256.Sum256(ab)
		path := filepath.Join(replays, fmt.Sprintf("%s-%s.json", ck.Property, hex.EncodeToString(h[:6])))
		if replays != "" {
			os.MkdirAll(replays, 0o755)
			if err := os.WriteFile(path, ab, 0o644); err != nil {
				fmt.Fprintln(os.Stderr, "cannot write replay:", err)
				return 2
			}
		}
		if f.Index >= 0 && f.Key != "hang" {
			rep, want := 0, 5
			if f.Details != nil && f.Details["expensive_to_reproduce"] == true {
				want = 1 // e.g. an operation that never returns: every reproduction costs a full timeout
			}
			for k := 0; k < want; k++ {
				t0 := time.Now()
				cmd := exec.Command(self, "-replay", path)
				cmd.Env = append(os.Environ(), fmt.Sprintf("VERIF_SEED=%d", seed))
				if err := cmd.Run(); err != nil {
					if ee, ok := err.(*exec.ExitError); ok && ee.ExitCode() == 1 {
						rep++
					}
				}
				if k == 0 && time.Since(t0) > 10*time.Second {
					want = 3 // expensive (history) replays: 3 re-runs
				}
			}
			if rep != want {
				// The harness is deterministic by construction (no clocks, no randomness, fresh inputs per case), so a
				// failure that reproduces in SOME fresh processes comes from nondeterminism inside the library under
				// test (sync.Pool reuse, goroutine scheduling, map iteration). Two or more reproductions out of the
				// re-runs are reported as an intermittent violation; fewer are not believed.
				if rep >= 2 {
					fmt.Printf("VIOLATION property=%s replay=%s\n", ck.Property, path)
					fmt.Printf("  domain=%s index=%d key=%s (INTERMITTENT: reproduced %d/%d times in fresh processes)\n", f.Domain, f.Index, f.Key, rep, want)
					printed++
					continue
				}
				fmt.Fprintf(os.Stderr, "INFRASTRUCTURE: failure %s/%d key=%s reproduced only %d/%d times; not reported as a violation\n", f.Domain, f.Index, f.Key, rep, want)
				unreproduced++
				violations--
				continue
			}
		}
		fmt.Printf("VIOLATION property=%s replay=%s\n", ck.Property, path)
		fmt.Printf("  domain=%s index=%d key=%s\n", f.Domain, f.Index, f.Key)
		printed++
	}

	// evidence
	var evals, nontriv int64
	exhaustive := true
	var domList []*domStats
	var samples []any
	var caps []string
	distinctOutcomes := 0
	for _, n := range order {
		m := merged[n]
		evals += m.Evals
		nontriv += m.Nontrivial
		if m.Completed != m.Size {
			exhaustive = false
			caps = append(caps, fmt.Sprintf("%s: completed %d of %d", n, m.Completed, m.Size))
		}
		if m.NotExh != "" {
			exhaustive = false
			caps = append(caps, n+": "+m.NotExh)
		}
		for k, v := range m.Counters {
			if strings.HasPrefix(k, "cap:") && v > 0 {
				exhaustive = false
				caps = append(caps, fmt.Sprintf("%s: %s (x%d)", n, k[4:], v))
			}
		}
		distinctOutcomes += len(m.Outcomes)
		for _, s := range m.Samples {
			if len(samples) < 12 {
				samples = append(samples, map[string]any{"domain": n, "case": s})
			}
		}
		domList = append(domList, m)
	}
	cov := map[string]any{
		"evaluations":         evals,
		"distinct_nontrivial": nontriv,
		"rule":                ck.Rule,
		"samples":             samples,
		"exhaustive":          exhaustive && violations == 0,
		"distinct_outcomes":   distinctOutcomes,
		"domains":             domList,
		"caps_hit":            caps,
		"workers":             nw,
	}
	if ck.Finish != nil {
		ck.Finish(cov, merged)
	}
	ev := map[string]any{
		"property_id": ck.Property,
		"tier":        tier,
		"seed":        seed,
		"level":       ck.Level,
		"coverage":    cov,
		"assumptions": ck.Assumptions,
		"wall_s":      time.Since(start).Seconds(),
		"violations":  violations,
		"repo_head":   repoHead,
	}
	if evidence != "" {
		eb, _ := json.MarshalIndent(ev, "", " ")
		os.MkdirAll(filepath.Dir(evidence), 0o755)
		if err := os.WriteFile(evidence, eb, 0o644); err != nil {
			fmt.Fprintln(os.Stderr, "cannot write evidence:", err)
			return 2
		}
	}
	fmt.Printf("property=%s tier=%s domains=%d evaluations=%d nontrivial=%d distinct_outcomes=%d exhaustive=%v violations=%d wall=%.1fs\n",
		ck.Property, tier, len(doms), evals, nontriv, distinctOutcomes, exhaustive && violations == 0, violations, time.Since(start).Seconds())
	for _, n := range order {
		m := merged[n]
		fmt.Printf("  %-34s size=%-12d evals=%-12d nontrivial=%-10d outcomes=%d\n", n, m.Size, m.Evals, m.Nontrivial, len(m.Outcomes))
		for _, w := range m.Warnings {
			fmt.Printf("    warning: %s\n", w)
		}
	}
	if printed > 0 || violations > 0 {
		return 1
	}
	if unreproduced > 0 {
		return 2 // failures were observed but none of them could be reproduced: not believed, not silent either
	}
	return 0
}

// Hex is a helper for details.
func Hex(b []byte) string {
	if len(b) > 96 {
		return hex.EncodeToString(b[:48]) + "…" + hex.EncodeToString(b[len(b)-48:]) + fmt.Sprintf("(%dB)", len(b))
	}
	return hex.EncodeToString(b)
}

// FullHex never truncates.
func FullHex(b []byte) string { return hex.EncodeToString(b) }

// Call runs f under recover and classifies the outcome:
// "ok" | "panic-string:<msg>" | "panic-runtime:<msg>" | "panic-error:<msg>" | "panic-other:<T>".
func Call(f func()) (outcome string) {
	defer func() {
		if r := recover(); r != nil {
			switch v := r.(type) {
			case runtime.Error:
				outcome = "panic-runtime:" + v.Error()
			case string:
				outcome = "panic-string:" + v
			case error:
				outcome = "panic-error:" + v.Error()
			default:
				outcome = fmt.Sprintf("panic-other:%T", r)
			}
		}
	}()
	f()
	return "ok"
}

// CorpusPath returns the path of a committed corpus file: $VERIF_CORPUS_DIR/<name> (set by ./check to its own
// corpus directory), default /verif/corpus/<name>.
func CorpusPath(name string) string {
	d := os.Getenv("VERIF_CORPUS_DIR")
	if d == "" {
		d = "/verif/corpus"
	}
	return d + "/" + name
}
