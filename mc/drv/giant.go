package drv

import "syscall"

// GiantZeros returns a read-only slice of n zero bytes backed by an anonymous no-reserve mapping (no memory is
// committed unless the bytes are copied), or nil if the mapping is refused. release unmaps it.
func GiantZeros(n uint64) (b []byte, release func()) {
	m, err := syscall.Mmap(-1, 0, int(n), syscall.PROT_READ, syscall.MAP_ANON|syscall.MAP_PRIVATE|syscall.MAP_NORESERVE)
	if err != nil {
		return nil, func() {}
	}
	return m, func() { syscall.Munmap(m) }
}

// GiantWithPrefix returns a slice of n bytes that starts with prefix and is zero afterwards (private no-reserve
// mapping: only the pages holding the prefix are committed), or nil if the mapping is refused.
func GiantWithPrefix(n uint64, prefix []byte) (b []byte, release func()) {
	m, err := syscall.Mmap(-1, 0, int(n), syscall.PROT_READ|syscall.PROT_WRITE, syscall.MAP_ANON|syscall.MAP_PRIVATE|syscall.MAP_NORESERVE)
	if err != nil {
		return nil, func() {}
	}
	copy(m, prefix)
	return m, func() { syscall.Munmap(m) }
}
