// Package e1 is the explicit-state explorer over the real *xmss.XMSS key object (engine E1).
//
// State  = a real key object; canonical key = SHA-256 of VerifSnapshot() (every field).
// Alphabet = Sign(m0), Sign(m1), SetIndex(j).  Successor = VerifClone() + the real call under recover().
// Two hash modes share the same control code: real hashes, or the symbolic Merkle algebra of the
// seam file (a node is the identity id(t,x); a wrong combination is poisoned at the hash that commits it).
package e1

import (
	"bytes"
	"crypto/sha256"
	"encoding/binary"
	"encoding/hex"
	"fmt"
	"os"
	"runtime"
	"sort"
	"time"

	"github.com/theQRL/go-qrllib/common"
	"github.com/theQRL/go-qrllib/misc"
	"github.com/theQRL/go-qrllib/xmss"
	"golang.org/x/crypto/sha3"
	"verifmc/refxmss"
)

type Op struct {
	Kind string `json:"op"` // "sign0" | "sign1" | "setindex"
	J    uint32 `json:"j,omitempty"`
}

func (o Op) String() string {
	if o.Kind == "signs" {
		return fmt.Sprintf("%d x Sign(alternating m0,m1)", o.J)
	}
	if o.Kind == "setindex" {
		return fmt.Sprintf("SetIndex(%d)", o.J)
	}
	if o.Kind == "signE" {
		return "Sign(empty message)"
	}
	return "Sign(m" + o.Kind[4:] + ")"
}

type Fail struct {
	Prop    string
	Key     string
	Details map[string]any
}

type Cfg struct {
	H        int
	Hf       int
	SeedKind int
	VSeed    int64
	Symbolic bool
	Complete bool // complete SetIndex alphabet (0..2^h+2, 2^31, 2^32-1) from every state
	Verify   bool // real mode: Verify every signature (and reject for the other message)
	Ref      bool // real mode: compare keys, signatures, auth paths and every computed node with refxmss
	Ctor     int  // 0 NewXMSSFromSeed, 1 ..FromExtendedSeed(GetExtendedSeed), 2 ..FromExtendedSeed(MnemonicToExtendedSeedBin(GetMnemonic))
	AllCtors bool // closure: start from all three constructors
	MaxFails int
	Own      string // property whose failures end the exploration early (others are recorded but do not stop it)
	Follow   int    // chain: number of further signatures taken from every jump landing state
}

func (c Cfg) String() string {
	m := "real"
	if c.Symbolic {
		m = "symbolic"
	}
	return fmt.Sprintf("h=%d hash=%d seed=%d mode=%s complete=%v", c.H, c.Hf, c.SeedKind, m, c.Complete)
}

type Res struct {
	States, Transitions, Signs, Jumps, Refusals, Events, Verifies, RefCompares int64
	NontrivialJumps                                                            int64 // SetIndex with j > idx+1 that succeeded
	OtherPropFails                                                             int64
	AuthNotReadyInState                                                        int64  // states whose stored auth path was not (yet) the one of the next index (diagnostic)
	CappedAt                                                                   uint64 // Lean: first index not covered because the time budget ran out (0 = complete)
	TraceDigest                                                                string
	Trace                                                                      []uint64 // only when KeepTrace
	Fails                                                                      []Fail
	Sample                                                                     []string
}

var M0 = []byte("verif message zero")
var M1 = []byte("verif message one!")

func Seed(kind int, vseed int64) (s [48]byte) {
	switch kind {
	case 0:
	case 1:
		for i := range s {
			s[i] = 0xFF
		}
	case 2:
		for i := range s {
			s[i] = byte(i*5 + 1)
		}
	default:
		sha3.ShakeSum256(s[:], []byte(fmt.Sprintf("verif-xmss-seed-%d-%d", kind, vseed)))
	}
	return
}

// NewKey builds the initial key through the chosen constructor.
func NewKey(c Cfg) *xmss.XMSS {
	k := xmss.NewXMSSFromSeed(Seed(c.SeedKind, c.VSeed), uint8(c.H), xmss.HashFunction(c.Hf), common.SHA256_2X)
	switch c.Ctor {
	case 1:
		return xmss.NewXMSSFromExtendedSeed(k.GetExtendedSeed())
	case 2:
		return xmss.NewXMSSFromExtendedSeed(misc.MnemonicToExtendedSeedBin(k.GetMnemonic()))
	}
	return k
}

// newKey is NewKey with a constructor that panics turned into a reported failure (nil is returned).
func (e *explorer) newKey(c Cfg) (k *xmss.XMSS) {
	defer func() {
		if r := recover(); r != nil {
			k = nil
			e.fail("C01", "constructor-refused-a-supported-configuration", nil, map[string]any{"config": c.String(), "constructor": []string{"NewXMSSFromSeed", "NewXMSSFromExtendedSeed(GetExtendedSeed())", "NewXMSSFromExtendedSeed(mnemonic)"}[c.Ctor], "observed": fmt.Sprint(r)})
		}
	}()
	return NewKey(c)
}

type explorer struct {
	cfg    Cfg
	res    *Res
	ref    *refxmss.Key
	dig    interface{ Write([]byte) (int, error) }
	sum    func() []byte
	keep   bool
	evbuf  []uint64
	ident  string
	curOps func() []Op
	numEl  uint64
	// set by step: the last refused operation nevertheless changed the object (the changed object is then explored too)
	refusalChangedState bool
	hung                bool
	// previous signature returned to the caller and a private copy of it: a later Sign must not change it
	prevSig, prevCopy []byte
}

func (e *explorer) ownFails() int {
	n := 0
	for _, f := range e.res.Fails {
		if e.cfg.Own == "" || f.Prop == e.cfg.Own {
			n++
		}
	}
	return n
}

func (e *explorer) fail(prop, key string, ops []Op, d map[string]any) {
	if e.cfg.MaxFails == 0 {
		e.cfg.MaxFails = 20
	}
	if e.cfg.Own != "" && prop != e.cfg.Own {
		// failures of other properties are kept only as a count: they must not use up the budget of this check
		e.res.OtherPropFails++
		return
	}
	if len(e.res.Fails) >= e.cfg.MaxFails {
		return
	}
	if d == nil {
		d = map[string]any{}
	}
	d["config"] = e.cfg.String()
	var so []string
	for _, o := range ops {
		so = append(so, o.String())
	}
	d["ops"] = so
	d["go_test"] = goTest(e.cfg, ops)
	e.res.Fails = append(e.res.Fails, Fail{prop, key, d})
}

func goTest(c Cfg, ops []Op) string {
	if c.Symbolic {
		return "symbolic-mode case: replay with ./check <ID> --replay <file> (needs the verif seams)"
	}
	var b bytes.Buffer
	fmt.Fprintf(&b, "func TestReplay(t *testing.T) {\n\tseed, _ := hex.DecodeString(%q)\n\tvar s [48]byte; copy(s[:], seed)\n", hex.EncodeToString(func() []byte { s := Seed(c.SeedKind, c.VSeed); return s[:] }()))
	fmt.Fprintf(&b, "\tk := xmss.NewXMSSFromSeed(s, %d, xmss.HashFunction(%d), common.SHA256_2X)\n", c.H, c.Hf)
	for _, o := range ops {
		switch o.Kind {
		case "signs":
			fmt.Fprintf(&b, "\tfor i := 0; i < %d; i++ { k.Sign([]byte(%q)) }\n", o.J, M0)
		case "setindex":
			fmt.Fprintf(&b, "\tk.SetIndex(%d)\n", o.J)
		case "sign0":
			fmt.Fprintf(&b, "\tsig, _ := k.Sign([]byte(%q)); if !xmss.Verify([]byte(%q), sig, k.GetPK()) { t.Fatal(\"does not verify\") }\n", M0, M0)
		case "sign1":
			fmt.Fprintf(&b, "\tsig, _ := k.Sign([]byte(%q)); if !xmss.Verify([]byte(%q), sig, k.GetPK()) { t.Fatal(\"does not verify\") }\n", M1, M1)
		case "signE":
			fmt.Fprintf(&b, "\tsig, _ := k.Sign([]byte{}); if !xmss.Verify([]byte{}, sig, k.GetPK()) { t.Fatal(\"does not verify\") }\n")
		}
	}
	b.WriteString("}\n")
	return b.String()
}

func (e *explorer) seam(kind int, t, x uint32, val []byte) {
	ev := uint64(kind)<<60 | uint64(t)<<40 | uint64(x)
	e.res.Events++
	var b [8]byte
	binary.BigEndian.PutUint64(b[:], ev)
	e.dig.Write(b[:])
	if e.keep {
		e.evbuf = append(e.evbuf, ev)
	}
	if e.ref != nil && val != nil && kind <= 1 {
		e.res.RefCompares++
		var want []byte
		if int(t) <= e.cfg.H && uint64(x) < uint64(len(e.ref.Tree[t])) {
			want = e.ref.Tree[t][x]
		}
		if !bytes.Equal(val, want) {
			e.fail("C06", fmt.Sprintf("node-value-differs-from-reference t=%d", t), e.curOps(), map[string]any{"node": fmt.Sprintf("(%d,%d)", t, x),
				"expected": hex.EncodeToString(want), "observed": hex.EncodeToString(val)})
		}
	}
}

func identity(k *xmss.XMSS) string {
	pk := k.GetPK()
	ad := k.GetAddress()
	la := k.GetLegacyAddress()
	sd := k.GetSeed()
	es := k.GetExtendedSeed()
	return fmt.Sprintf("pk=%x addr=%x legacy=%x seed=%x eseed=%x hex=%s mn=%s h=%d root=%x pkseed=%x", pk, ad, la, sd, es, k.GetHexSeed(), k.GetMnemonic(), k.GetHeight(), k.GetRoot(), k.GetPKSeed())
}

// expectedAuth returns the authentication path the key must hold at index idx.
func (e *explorer) expectedAuth(idx uint32) []byte {
	var out []byte
	for t := 0; t < e.cfg.H; t++ {
		x := (idx >> uint(t)) ^ 1
		if e.cfg.Symbolic {
			out = append(out, xmss.VerifID(uint32(t), x)...)
		} else {
			out = append(out, e.ref.Tree[t][x]...)
		}
	}
	return out
}

type outcome struct {
	kind string // "ok" | "refused:<msg>" | "runtime:<msg>" | "other:<..>"
	sig  []byte
	err  error
}

// An operation that never returns (e.g. a lock leaked by an earlier refusal) is a violation, not a reason to hang the
// explorer. The allowance is deliberately far above any legitimate cost, and scales with the work the call has to do:
// 60 seconds plus, per traversal round of a forward jump, 50 ms in real-hash mode (a round costs about 4 ms) or 200 us in
// symbolic mode (about 2 us),
// so that a loaded machine cannot turn a slow legitimate call into an alarm.
func opAllowance(k *xmss.XMSS, op Op) time.Duration {
	d := 60 * time.Second // a Sign or a one-step SetIndex costs milliseconds
	if op.Kind == "setindex" {
		n := uint64(1) << k.GetHeight()
		if cur := uint64(k.GetIndex()); uint64(op.J) > cur && uint64(op.J) < n { // targets >= 2^h are refused at once
			per := 50 * time.Millisecond // real hashes: about 4 ms per round
			if xmss.VerifSymbolic {
				per = 200 * time.Microsecond // symbolic: about 2 us per round
			}
			d += time.Duration(uint64(op.J)-cur) * per
		}
	}
	return d
}

func apply(k *xmss.XMSS, op Op) outcome {
	allow := opAllowance(k, op)
	ch := make(chan outcome, 1)
	go func() { ch <- applyNow(k, op) }()
	select {
	case o := <-ch:
		return o
	case <-time.After(allow):
		return outcome{kind: "hang:operation did not return within " + allow.String()}
	}
}

func applyNow(k *xmss.XMSS, op Op) (o outcome) {
	defer func() {
		if r := recover(); r != nil {
			switch v := r.(type) {
			case runtime.Error:
				o.kind = "runtime:" + v.Error()
			case string:
				o.kind = "refused:" + v
			default:
				o.kind = fmt.Sprintf("other:%v", r)
			}
		}
	}()
	switch op.Kind {
	case "setindex":
		k.SetIndex(op.J)
	case "sign0":
		o.sig, o.err = k.Sign(M0)
	case "sign1":
		o.sig, o.err = k.Sign(M1)
	case "signE":
		o.sig, o.err = k.Sign([]byte{})
	}
	o.kind = "ok"
	return
}

// step executes op on k (in place), checks every oracle for that transition and returns whether
// the call was accepted. snapBefore may be nil (then refusal state-preservation is checked via a fresh snapshot taken here).
func (e *explorer) step(k *xmss.XMSS, op Op, ops []Op) (accepted bool) {
	if e.hung {
		return false // an earlier operation never returned: every further call on these objects would cost a full timeout
	}
	e.res.Transitions++
	idx := uint64(k.GetIndex())
	before := k.VerifSnapshot()
	e.curOps = func() []Op { return ops }
	o := apply(k, op)
	after := uint64(k.GetIndex())
	isSign := op.Kind != "setindex"
	var expectOK bool
	if isSign {
		expectOK = idx < e.numEl
	} else {
		expectOK = uint64(op.J) < e.numEl && uint64(op.J) >= idx
	}
	if o.kind != "ok" && o.kind[:7] != "refused" {
		e.fail("C02", "operation-faulted", ops, map[string]any{"index_before": idx, "observed": o.kind, "expected": "value or explicit refusal", "expensive_to_reproduce": o.kind[:4] == "hang"})
		if o.kind[:4] == "hang" {
			e.fail("C01", "operation-did-not-return", ops, map[string]any{"observed": o.kind, "expensive_to_reproduce": true})
			e.fail("C08", "operation-did-not-return", ops, map[string]any{"observed": o.kind, "expensive_to_reproduce": true})
			e.hung = true
		}
		return false
	}
	if o.kind == "ok" && isSign && (o.err != nil || o.sig == nil) {
		// an error return is a refusal too
		o.kind = "refused:error " + fmt.Sprint(o.err)
	}
	if o.kind != "ok" {
		e.res.Refusals++
		if expectOK {
			e.fail("C02", "legal-operation-refused", ops, map[string]any{"index_before": idx, "observed": o.kind, "expected": "accepted (counter automaton)"})
		}
		e.refusalChangedState = false
		if !bytes.Equal(before, k.VerifSnapshot()) {
			e.refusalChangedState = true
			e.fail("C02", "refused-operation-changed-state", ops, map[string]any{"index_before": idx, "index_after": after, "observed": o.kind})
		}
		return false
	}
	if !expectOK {
		e.fail("C02", "illegal-operation-accepted", ops, map[string]any{"index_before": idx, "index_after": after,
			"expected": "refusal (counter automaton: rewind, past the last leaf, or exhausted key)"})
		return true
	}
	if isSign {
		e.res.Signs++
		if after != idx+1 {
			e.fail("C02", "sign-did-not-consume-exactly-one-index", ops, map[string]any{"index_before": idx, "index_after": after})
		}
		want := refxmss.SigSize(16, e.cfg.H)
		if len(o.sig) != want {
			e.fail("C01", "signature-size", ops, map[string]any{"observed": len(o.sig), "expected": want})
			return true
		}
		if e.prevSig != nil && !bytes.Equal(e.prevSig, e.prevCopy) {
			e.fail("C01", "earlier-signature-overwritten-by-later-sign", ops, map[string]any{"index": idx, "meaning": "Sign returned a slice that aliases storage reused by the next Sign"})
			e.fail("C02", "earlier-signature-overwritten-by-later-sign", ops, map[string]any{"index": idx})
			e.prevSig = nil
		} else {
			e.prevSig, e.prevCopy = o.sig, append([]byte(nil), o.sig...)
		}
		if si := uint64(binary.BigEndian.Uint32(o.sig[:4])); si != idx {
			e.fail("C02", "signature-index-field", ops, map[string]any{"expected": idx, "observed": si})
		}
		msg, other := M0, M1
		if op.Kind == "sign1" {
			msg, other = M1, M0
		}
		if op.Kind == "signE" {
			msg = []byte{}
		}
		authOff := len(o.sig) - 32*e.cfg.H
		if e.cfg.Symbolic || e.ref != nil {
			if exp := e.expectedAuth(uint32(idx)); !bytes.Equal(o.sig[authOff:], exp) {
				t := 0
				for ; t < e.cfg.H && bytes.Equal(o.sig[authOff+32*t:authOff+32*t+32], exp[32*t:32*t+32]); t++ {
				}
				e.fail("C01", fmt.Sprintf("wrong-authentication-path-in-signature level=%d", t), ops, map[string]any{"index": idx, "level": t,
					"expected": hex.EncodeToString(exp[32*t : 32*t+32]), "observed": hex.EncodeToString(o.sig[authOff+32*t : authOff+32*t+32])})
			}
		}
		if !e.cfg.Symbolic {
			if e.cfg.Verify {
				e.res.Verifies++
				save := xmss.VerifSeam
				xmss.VerifSeam = nil
				pk := k.GetPK()
				if !xmss.Verify(msg, o.sig, pk) {
					e.fail("C01", "signature-does-not-verify", ops, map[string]any{"index": idx, "message": string(msg)})
				}
				if xmss.Verify(other, o.sig, pk) {
					e.fail("C01", "signature-verifies-for-other-message", ops, map[string]any{"index": idx})
				}
				xmss.VerifSeam = save
			}
			if e.ref != nil {
				e.res.RefCompares++
				if exp := e.ref.Sign(uint32(idx), msg); !bytes.Equal(exp, o.sig) {
					d := 0
					for ; d < len(exp) && d < len(o.sig) && exp[d] == o.sig[d]; d++ {
					}
					e.fail("C06", "signature-differs-from-reference", ops, map[string]any{"index": idx, "first_differing_byte": d,
						"section": section(d, e.cfg.H)})
				}
			}
		}
	} else {
		e.res.Jumps++
		if after != uint64(op.J) {
			e.fail("C02", "setindex-wrong-index", ops, map[string]any{"expected": op.J, "observed": after})
		}
		if uint64(op.J) > idx+1 {
			e.res.NontrivialJumps++
		}
	}
	return true
}

func section(off, h int) string {
	switch {
	case off < 4:
		return "index"
	case off < 36:
		return "R"
	case off < 36+67*32:
		return fmt.Sprintf("wots chain %d", (off-36)/32)
	default:
		return fmt.Sprintf("auth level %d", (off-36-67*32)/32)
	}
}

// checkState checks the per-state invariants: identity constant, auth path right (symbolic / ref), no poison.
func (e *explorer) checkState(k *xmss.XMSS, ops []Op, full bool) {
	idx := k.GetIndex()
	if uint64(idx) < e.numEl && (e.cfg.Symbolic || e.ref != nil) {
		// Diagnostic only: WHEN the object prepares the next authentication path is an implementation choice; the
		// property speaks about signatures, and every explored state is followed by a Sign whose signature is checked.
		if got, exp := k.VerifAuth(), e.expectedAuth(idx); !bytes.Equal(got, exp) {
			e.res.AuthNotReadyInState++
		}
	}
	if len(xmss.VerifDiag) > 0 {
		e.fail("C01", "symbolic-merkle-algebra-violated", ops, map[string]any{"index": idx, "diagnostics": append([]string(nil), xmss.VerifDiag...)})
		xmss.VerifDiag = nil
	}
	if full {
		if id := identity(k); id != e.ident {
			e.fail("C02", "reported-identity-changed", ops, map[string]any{"index": idx, "expected": e.ident, "observed": id})
		}
	}
}

func (e *explorer) setup() {
	c := e.cfg
	e.numEl = uint64(1) << uint(c.H)
	xmss.VerifSymbolic = c.Symbolic
	xmss.VerifDiag = nil
	h := sha256.New()
	e.dig = h
	e.sum = func() []byte { return h.Sum(nil) }
	xmss.VerifSeam = e.seam
	e.curOps = func() []Op { return nil }
	if c.Ref && !c.Symbolic {
		s := Seed(c.SeedKind, c.VSeed)
		e.ref = refxmss.NewKey(s[:], c.H, refxmss.Hash(c.Hf))
	}
}

func (e *explorer) checkKey(k *xmss.XMSS) {
	if e.cfg.Symbolic {
		if !bytes.Equal(k.GetRoot(), xmss.VerifID(uint32(e.cfg.H), 0)) {
			e.fail("C01", "symbolic-root-wrong", nil, map[string]any{"observed": hex.EncodeToString(k.GetRoot())})
		}
	}
	if e.ref != nil {
		pk := k.GetPK()
		if !bytes.Equal(pk[:], e.ref.PK()) {
			e.fail("C06", "public-key-differs-from-reference", nil, map[string]any{"expected": hex.EncodeToString(e.ref.PK()), "observed": hex.EncodeToString(pk[:])})
		}
		ad := k.GetAddress()
		if !bytes.Equal(ad[:], refxmss.Address(pk[:])) {
			e.fail("C06", "address-differs-from-reference", nil, nil)
		}
	}
}

// Closure explores all reachable states by BFS from the constructor(s).
func Closure(c Cfg, keepTrace bool) *Res {
	res := &Res{}
	e := &explorer{cfg: c, res: res, keep: keepTrace}
	e.setup()
	defer func() { xmss.VerifSeam = nil; xmss.VerifSymbolic = false }()
	type st struct {
		k   *xmss.XMSS
		ops []Op
		idx uint32
	}
	seen := map[[32]byte]int{}
	byIdx := map[uint32][32]byte{}
	pathOf := map[[32]byte][]Op{}
	var queue []st
	ctors := []int{c.Ctor}
	if c.AllCtors {
		ctors = []int{0, 1, 2}
	}
	for _, ct := range ctors {
		cc := c
		cc.Ctor = ct
		k := e.newKey(cc)
		if k == nil {
			continue
		}
		if e.ident == "" {
			e.ident = identity(k)
			e.checkKey(k)
		}
		key := sha256.Sum256(k.VerifSnapshot())
		if _, ok := seen[key]; ok {
			continue
		}
		if len(seen) > 0 {
			e.fail("C08", "constructors-give-different-initial-states", nil, map[string]any{"ctor": ct})
		}
		seen[key] = len(seen)
		byIdx[0] = key
		queue = append(queue, st{k, nil, 0})
		e.checkState(k, nil, true)
	}
	numEl := e.numEl
	targets := func(i uint32) []uint32 {
		var js []uint32
		if c.Complete {
			for j := uint64(0); j <= numEl+2; j++ {
				js = append(js, uint32(j))
			}
			js = append(js, 1<<16, 1<<24, 1<<30, 1<<31-1, 1<<31, 1<<31+1, uint32(1<<32-numEl), 1<<32-2, 1<<32-1)
		} else {
			js = BoundaryTargets(i, c.H, 1<<62)
		}
		return js
	}
	for len(queue) > 0 {
		if e.hung || e.ownFails() >= 5 || uint64(len(seen)) > 8*numEl+8 {
			break // the state graph is already known to be wrong: stop instead of exploring a blown-up graph
		}
		s := queue[0]
		queue = queue[1:]
		if os.Getenv("VERIF_DEBUG") != "" {
			fmt.Fprintf(os.Stderr, "bfs: idx=%d seen=%d queue=%d fails=%d trans=%d\n", s.idx, len(seen), len(queue), len(res.Fails), res.Transitions)
		}
		var opsList []Op
		opsList = append(opsList, Op{Kind: "sign0"}, Op{Kind: "sign1"}, Op{Kind: "signE"})
		for _, j := range targets(s.idx) {
			opsList = append(opsList, Op{Kind: "setindex", J: j})
		}
		for _, op := range opsList {
			k2 := s.k.VerifClone()
			ops := append(append([]Op(nil), s.ops...), op)
			acc := e.step(k2, op, ops)
			if !acc && !e.refusalChangedState {
				continue // refusal: self-loop (state equality already checked)
			}
			e.refusalChangedState = false
			e.checkState(k2, ops, true)
			key := sha256.Sum256(k2.VerifSnapshot())
			idx2 := k2.GetIndex()
			if _, ok := seen[key]; ok {
				continue
			}
			if prev, ok := byIdx[idx2]; ok && prev != key {
				e.fail("C08", "state-at-index-depends-on-path", ops, map[string]any{"index": idx2, "other_path": fmt.Sprint(pathOf[prev]),
					"expected": "bit-identical key state for every way of reaching this index"})
			} else {
				byIdx[idx2] = key
			}
			seen[key] = len(seen)
			pathOf[key] = ops
			queue = append(queue, st{k2, ops, idx2})
			if len(res.Sample) < 3 && len(ops) >= 2 {
				res.Sample = append(res.Sample, fmt.Sprint(ops, " -> idx ", idx2))
			}
		}
	}
	res.States = int64(len(seen))
	if uint64(len(seen)) != numEl+1 && e.ownFails() == 0 {
		e.fail("C08", "reachable-state-count", nil, map[string]any{"expected": numEl + 1, "observed": len(seen)})
	}
	res.TraceDigest = hex.EncodeToString(e.sum())
	res.Trace = e.evbuf
	return res
}

// BoundaryTargets is the SetIndex alphabet used where the complete one is too large.
func BoundaryTargets(i uint32, h int, maxDist uint64) []uint32 {
	n := uint64(1) << uint(h)
	set := map[uint32]bool{}
	add := func(j uint64) {
		if j < 1<<32 {
			set[uint32(j)] = true
		}
	}
	for d := uint64(0); d <= 4; d++ {
		add(uint64(i) + d)
	}
	for t := 0; t <= h; t++ {
		p := uint64(1) << uint(t)
		// next multiple of 2^t strictly ahead of i
		nx := (uint64(i)/p + 1) * p
		for _, j := range []uint64{nx - 1, nx, nx + 1} {
			if j > uint64(i) {
				add(j)
			}
		}
	}
	add(n - 2)
	add(n - 1)
	add(n)
	add(n + 1)
	add(1<<32 - 1)
	add(1 << 31)
	add(0)
	for d := uint64(1); d <= 3; d++ {
		if uint64(i) >= d {
			add(uint64(i) - d)
		}
	}
	var js []uint32
	for j := range set {
		if uint64(j) > uint64(i) && uint64(j) < n && uint64(j)-uint64(i) > maxDist {
			continue
		}
		js = append(js, j)
	}
	sort.Slice(js, func(a, b int) bool { return js[a] < js[b] })
	return js
}

// Chain walks the whole life of a key with two lock-step walkers (A: Sign, B: SetIndex(i+1)),
// compares their full snapshots at every index, and from the source states in `sources`
// (nil = a boundary set) tries every boundary jump whose distance is <= maxDist, comparing the
// state reached with walker A's state at that index (digest table).
func Chain(c Cfg, maxDist uint64, everyStateCheap bool, keepTrace bool, capIdx uint64) *Res {
	res := &Res{}
	e := &explorer{cfg: c, res: res, keep: keepTrace}
	e.setup()
	defer func() { xmss.VerifSeam = nil; xmss.VerifSymbolic = false }()
	a := e.newKey(c)
	if a == nil {
		return res
	}
	e.ident = identity(a)
	e.checkKey(a)
	cb := c
	cb.Ctor = 1
	b := e.newKey(cb)
	if b == nil {
		return res
	}
	n := e.numEl
	last := n
	if capIdx > 0 && capIdx < n {
		last = capIdx
	}
	// digest table of walker A's states (16-byte truncated SHA-256), only if it fits.
	var table [][16]byte
	if c.H <= 22 && capIdx == 0 {
		table = make([][16]byte, n+1)
	}
	// jumps are executed eagerly from clones of A; the landing state is checked against the table
	// later (when A gets there) via the `landed` list.
	type landed struct {
		j   uint32
		key [16]byte
		ops []Op
	}
	var lands []landed
	srcSet := map[uint64]bool{}
	if c.H > 8 {
		for _, i := range []uint64{0, 1, 2, 3, 4, 5, n - 1, n - 2, n - 3, n - 4, n - 5} {
			srcSet[i] = true
		}
		for t := 2; t < c.H; t++ {
			p := uint64(1) << uint(t)
			for _, i := range []uint64{p - 2, p - 1, p, p + 1, 3*p - 1, 3 * p, 3*p + 1, n - p - 1, n - p, n - p + 1} {
				if i < n {
					srcSet[i] = true
				}
			}
		}
	}
	isSource := func(i uint64) bool { return c.H <= 8 || srcSet[i] }
	var ops []Op // walker A's ops are implicit: i signs
	opsA := func(i uint64) []Op { return []Op{{Kind: "signs", J: uint32(i)}} }
	_ = ops
	for i := uint64(0); i <= last; i++ {
		sa := a.VerifSnapshot()
		sb := b.VerifSnapshot()
		res.States++
		if !bytes.Equal(sa, sb) {
			e.fail("C08", "sign-path-and-jump-path-states-differ", []Op{{Kind: "setindex", J: uint32(i)}}, map[string]any{"index": i,
				"expected": "state after i signatures == state after SetIndex(1);...;SetIndex(i) on a key rebuilt from the extended seed"})
		}
		if table != nil {
			d := sha256.Sum256(sa)
			copy(table[i][:], d[:16])
		}
		e.checkState(a, opsA(i), i < 64 || i+64 >= n || !everyStateCheap)
		if i == last {
			break
		}
		// cheap ops from this state: refusals and no-op
		if i < n {
			cheap := []Op{{Kind: "setindex", J: uint32(i)}}
			if i > 0 {
				cheap = append(cheap, Op{Kind: "setindex", J: uint32(i - 1)}, Op{Kind: "setindex", J: 0})
			}
			cheap = append(cheap, Op{Kind: "setindex", J: uint32(n)}, Op{Kind: "setindex", J: 1<<32 - 1})
			if c.H <= 16 || isSource(i) {
				for _, op := range cheap {
					e.step(a, op, append(opsA(i), op)) // refusals / no-op: state must be unchanged
				}
				if !bytes.Equal(sa, a.VerifSnapshot()) {
					e.fail("C02", "noop-or-refused-setindex-changed-state", opsA(i), map[string]any{"index": i})
				}
			}
		}
		if isSource(i) && table != nil {
			for _, j := range BoundaryTargets(uint32(i), c.H, maxDist) {
				if uint64(j) <= i+1 || uint64(j) >= n {
					continue
				}
				k2 := a.VerifClone()
				op := Op{Kind: "setindex", J: j}
				jops := append(opsA(i), op)
				if e.step(k2, op, jops) {
					e.checkState(k2, jops, false)
					d := sha256.Sum256(k2.VerifSnapshot())
					var kk [16]byte
					copy(kk[:], d[:16])
					lands = append(lands, landed{j, kk, jops})
					// the signatures produced after the jump are checked like any other (C01): a traversal slip in the
					// fast-forward path typically shows only some signatures later (up to 2^(h-2) of them)
					fops := append([]Op(nil), jops...)
					e.prevSig = nil
					for f := 0; f < c.Follow && uint64(j)+uint64(f) < n; f++ {
						sop := Op{Kind: "sign1"}
						if f%2 == 1 {
							sop = Op{Kind: "sign0"}
						}
						fops = append(fops, sop)
						if !e.step(k2, sop, fops) {
							break
						}
					}
					e.prevSig = nil
				}
			}
		}
		// advance
		opA := Op{Kind: "sign0"}
		if i&1 == 1 {
			opA = Op{Kind: "sign1"}
		}
		if i%7 == 3 {
			opA = Op{Kind: "signE"}
		}
		e.step(a, opA, append(opsA(i), opA))
		if i+1 < n {
			e.step(b, Op{Kind: "setindex", J: uint32(i + 1)}, []Op{{Kind: "setindex", J: uint32(i)}, {Kind: "setindex", J: uint32(i + 1)}})
		} else {
			// last leaf: B must also sign to reach the exhausted state
			e.step(b, opA, append(opsA(i), opA))
		}
		if e.ownFails() >= 5 || e.hung {
			break
		}
	}
	if table != nil {
		for _, l := range lands {
			if table[l.j] != l.key {
				e.fail("C08", "state-after-jump-differs-from-state-after-signing", l.ops, map[string]any{"index": l.j})
			}
		}
	}
	// exhausted key: no further signature
	if last == n {
		for _, op := range []Op{{Kind: "sign0"}, {Kind: "sign1"}, {Kind: "setindex", J: uint32(n - 1)}, {Kind: "setindex", J: uint32(n)}} {
			e.step(a, op, []Op{{Kind: "setindex", J: uint32(n - 1)}, {Kind: "sign0"}, op})
		}
	}
	res.TraceDigest = hex.EncodeToString(e.sum())
	res.Trace = e.evbuf
	return res
}

// Lean walks the index range [from,to) of a key in symbolic mode with the cheapest possible oracle:
// SetIndex(from) on a fresh key (one forward jump), then Sign at every index; every signature must carry
// its index and exactly the sibling identities of that index as authentication path, and the symbolic
// algebra must never be violated. No snapshots, no clones: this is what reaches heights 26..30.
func Lean(c Cfg, from, to uint64, budget time.Duration) *Res {
	res := &Res{}
	c.Symbolic = true
	e := &explorer{cfg: c, res: res}
	e.setup()
	xmss.VerifSeam = nil // no trace: only the algebra's own diagnostics
	defer func() { xmss.VerifSeam = nil; xmss.VerifSymbolic = false }()
	deadline := time.Now().Add(budget)
	k := e.newKey(c)
	if k == nil {
		return res
	}
	e.checkKey(k)
	if from > 0 {
		op := Op{Kind: "setindex", J: uint32(from)}
		if o := apply(k, op); o.kind != "ok" {
			e.fail("C01", "lean-jump-refused", []Op{op}, map[string]any{"observed": o.kind})
			return res
		}
		res.Jumps++
		res.NontrivialJumps++
		res.Transitions++
	}
	authLen := 32 * c.H
	for i := from; i < to; i++ {
		if i&0xFFFF == 0 && budget > 0 && time.Now().After(deadline) {
			res.CappedAt = i
			break
		}
		msg := M0
		if i&1 == 1 {
			msg = M1
		}
		sig, err := k.Sign(msg)
		res.Transitions++
		res.States++
		ops := []Op{{Kind: "setindex", J: uint32(from)}, {Kind: "signs", J: uint32(i - from + 1)}}
		if err != nil || len(sig) < authLen+4 {
			e.fail("C01", "lean-sign-failed", ops, map[string]any{"index": i, "err": fmt.Sprint(err)})
			break
		}
		res.Signs++
		if uint64(binary.BigEndian.Uint32(sig[:4])) != i {
			e.fail("C02", "signature-index-field", ops, map[string]any{"expected": i, "observed": binary.BigEndian.Uint32(sig[:4])})
			break
		}
		auth := sig[len(sig)-authLen:]
		bad := -1
		for t := 0; t < c.H; t++ {
			x := uint32(i>>uint(t)) ^ 1
			a := auth[32*t : 32*t+32]
			// identity layout: "VSYMNODE" | t (4) | x (4) | pattern
			if binary.BigEndian.Uint32(a[8:12]) != uint32(t) || binary.BigEndian.Uint32(a[12:16]) != x || a[0] != 'V' || a[7] != 'E' || a[16] != byte(0xC3^16) {
				bad = t
				break
			}
		}
		if bad >= 0 || len(xmss.VerifDiag) > 0 {
			e.fail("C01", fmt.Sprintf("wrong-authentication-path-in-signature level=%d", bad), ops, map[string]any{"index": i, "level": bad, "diagnostics": append([]string(nil), xmss.VerifDiag...)})
			break
		}
	}
	return res
}
