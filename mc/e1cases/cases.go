// Package e1cases turns E1 configurations into driver domains for C01, C02, C06 and C08.
package e1cases

import (
	"fmt"
	"os"
	"time"

	"verifmc/drv"
	"verifmc/e1"
)

type kase struct {
	name string
	cfg  e1.Cfg
	mode string // closure | chain
	// chain parameters
	maxDist uint64
	capIdx  uint64
	// compare the seam trace with the symbolic run of the same exploration
	conform bool
}

func run(k kase) (*e1.Res, *e1.Res) {
	exec := func(c e1.Cfg) *e1.Res {
		if k.mode == "closure" {
			return e1.Closure(c, false)
		}
		return e1.Chain(c, k.maxDist, true, false, k.capIdx)
	}
	var sym *e1.Res
	if k.conform && !k.cfg.Symbolic {
		sc := k.cfg
		sc.Symbolic, sc.Verify, sc.Ref = true, false, false
		sym = exec(sc)
	}
	return exec(k.cfg), sym
}

func domain(prop, name, desc, tier string, ks []kase, props map[string]bool) *drv.Domain {
	return &drv.Domain{Name: name, Desc: desc, Tier: tier, Size: int64(len(ks)), Chunk: 1,
		Run: func(c *drv.Ctx, lo, hi int64) {
			for i := lo; i < hi; i++ {
				c.At(i)
				k := ks[i]
				k.cfg.VSeed = c.Seed
				k.cfg.Own = prop
				if k.cfg.Symbolic {
					k.cfg.Follow = 1<<uint(k.cfg.H-2) + 2
					if k.cfg.Follow > 80 {
						k.cfg.Follow = 80
					}
				} else {
					k.cfg.Follow = 2
				}
				res, sym := run(k)
				c.Eval(res.Transitions)
				c.Count("states", res.States)
				c.Count("transitions", res.Transitions)
				c.Count("signatures", res.Signs)
				c.Count("jumps", res.Jumps)
				c.Count("refusals", res.Refusals)
				c.Count("seam_events", res.Events)
				c.Count("verifies", res.Verifies)
				c.Count("reference_compares", res.RefCompares)
				c.Nontrivial(res.NontrivialJumps + res.Signs)
				c.Count("nontrivial_jumps", res.NontrivialJumps)
				c.Count("diagnostic:auth_path_not_ready_in_state", res.AuthNotReadyInState)
				c.Outcome(fmt.Sprintf("states=%d", res.States))
				c.SetAdd(fmt.Sprintf("trace:%s:h=%d", k.mode, k.cfg.H), res.TraceDigest)
				if sym != nil {
					c.Count("traces_validated", 1)
					c.Count("trace_events_validated", res.Events)
					if (sym.TraceDigest != res.TraceDigest || sym.Events != res.Events) && !props["C01"] {
						c.Count("trace_mismatch_ignored(C01)", 1)
					} else if sym.TraceDigest != res.TraceDigest || sym.Events != res.Events {
						c.Fail(i, "C01:trace-real-differs-from-symbolic", map[string]any{"config": k.cfg.String(), "real_events": res.Events, "symbolic_events": sym.Events,
							"meaning": "the traversal's sequence of leaf/node computations differs between the symbolic model run and the real-hash run"})
					}
					c.Count("failures_of_other_properties_ignored", sym.OtherPropFails)
					for _, f := range sym.Fails {
						if props[f.Prop] {
							c.Fail(i, f.Prop+":"+f.Key, f.Details)
						}
					}
				}
				c.Count("failures_of_other_properties_ignored", res.OtherPropFails)
				for _, f := range res.Fails {
					if props[f.Prop] {
						c.Fail(i, f.Prop+":"+f.Key, f.Details)
					} else {
						c.Count("failures_of_other_properties_ignored:"+f.Prop, 1)
					}
				}
				for _, s := range res.Sample {
					c.Sample(map[string]any{"config": k.cfg.String(), "path": s})
				}
				if len(res.Sample) == 0 {
					c.Sample(map[string]any{"config": k.cfg.String(), "mode": k.mode, "states": res.States, "transitions": res.Transitions})
				}
			}
		}}
}

func Main(prop string) { MainWith(prop, nil) }

func MainWith(prop string, extra []*drv.Domain) {
	ck := &drv.Check{Property: prop, Level: "model_checking", Horizon: 3 * time.Hour}
	own := map[string]bool{prop: true}
	var qRealClosure, tRealClosure, qRealChain, tRealChain, qSymClosure, tSymClosure, qSymChain, tSymChain []kase
	verify := prop == "C01"
	ref := prop == "C01" || prop == "C06"
	for hf := 0; hf < 3; hf++ {
		for sd := 0; sd < 2; sd++ {
			qRealClosure = append(qRealClosure, kase{cfg: e1.Cfg{H: 4, Hf: hf, SeedKind: sd*3 + hf%2, Complete: true, Verify: verify, Ref: ref, AllCtors: true}, mode: "closure", conform: true})
		}
		tRealClosure = append(tRealClosure, kase{cfg: e1.Cfg{H: 6, Hf: hf, SeedKind: 2 + hf, Complete: true, Verify: verify, Ref: ref, AllCtors: true}, mode: "closure", conform: true})
		qRealChain = append(qRealChain, kase{cfg: e1.Cfg{H: 6, Hf: hf, SeedKind: hf, Verify: verify, Ref: ref}, mode: "chain", maxDist: 8, conform: true})
		tRealChain = append(tRealChain, kase{cfg: e1.Cfg{H: 8, Hf: hf, SeedKind: 3 + hf, Verify: verify, Ref: ref}, mode: "chain", maxDist: 64, conform: true})
		tRealChain = append(tRealChain, kase{cfg: e1.Cfg{H: 10, Hf: hf, SeedKind: hf, Verify: verify, Ref: ref}, mode: "chain", maxDist: 16, conform: true})
	}
	tRealChain = append(tRealChain, kase{cfg: e1.Cfg{H: 12, Hf: 1, SeedKind: 0, Verify: verify, Ref: ref}, mode: "chain", maxDist: 8, conform: true})
	for _, h := range []int{4, 6, 8} {
		qSymClosure = append(qSymClosure, kase{cfg: e1.Cfg{H: h, Symbolic: true, Complete: true, AllCtors: true}, mode: "closure"})
	}
	tSymClosure = append(tSymClosure, kase{cfg: e1.Cfg{H: 10, Symbolic: true, Complete: true, AllCtors: true}, mode: "closure"})
	for h := 4; h <= 18; h += 2 {
		md := uint64(1) << 62
		if h > 10 {
			md = 1 << 10
		}
		qSymChain = append(qSymChain, kase{cfg: e1.Cfg{H: h, Symbolic: true}, mode: "chain", maxDist: md})
	}
	for h := 20; h <= 24; h += 2 {
		tSymChain = append(tSymChain, kase{cfg: e1.Cfg{H: h, Symbolic: true}, mode: "chain", maxDist: 1 << 20})
	}
	d := func(name, desc, tier string, ks []kase) {
		if len(ks) > 0 {
			ck.Domains = append(ck.Domains, domain(prop, name, desc, tier, ks, own))
		}
	}
	d("real-closure-h4", "BFS closure, real hashes, h=4, COMPLETE SetIndex alphabet (0..2^h+2, 2^31, 2^32-1) + Sign(m0)/Sign(m1) from every state, 3 hash functions x 2 seeds, all three constructors; trace validated against the symbolic run", "", qRealClosure)
	d("real-closure-h6", "as above, h=6, 3 hash functions", "t", tRealClosure)
	d("real-chain-h6", "whole key life, real hashes, h=6: two lock-step walkers (Sign / SetIndex), every boundary jump from every state, 3 hash functions; trace validated against symbolic", "", qRealChain)
	d("real-chain-h8-12", "whole key life, real hashes, h=8,10 (3 hash functions) and h=12 (SHAKE-128)", "t", tRealChain)
	if prop == "C06" {
		// C06 is about real hash values: the symbolic domains do not apply
		qSymClosure, tSymClosure, qSymChain, tSymChain = nil, nil, nil, nil
	}
	d("sym-closure", "BFS closure, symbolic Merkle algebra, complete alphabet, h=4,6,8", "", qSymClosure)
	d("sym-closure-h10", "BFS closure, symbolic, complete alphabet, h=10", "t", tSymClosure)
	d("sym-chain", "whole key life, symbolic, every even h 4..18: every index, lock-step walkers, boundary jumps", "", qSymChain)
	d("sym-chain-h20-24", "whole key life, symbolic, h=20..24", "t", tSymChain)
	if prop == "C01" {
		type seg struct {
			h        int
			from, to uint64
			budget   time.Duration
		}
		var segs []seg
		add := func(h, parts int, budget time.Duration) {
			n := uint64(1) << uint(h)
			for k := 0; k < parts; k++ {
				segs = append(segs, seg{h, n / uint64(parts) * uint64(k), n / uint64(parts) * uint64(k+1), budget})
			}
		}
		add(26, 4, 0)
		add(28, 16, 0)
		h30 := 25 * time.Minute
		if os.Getenv("VERIF_H30") == "full" {
			h30 = 0
		}
		add(30, 16, h30)
		ck.Domains = append(ck.Domains, &drv.Domain{Name: "sym-lean-h26-30", Tier: "t", Size: int64(len(segs)), Chunk: 1,
			Desc:          "symbolic whole-life walks at h=26, 28, 30 split into index segments (one forward jump to the segment start on a fresh key, then Sign at every index): index field and exact sibling identities in every signature; h=30 under a 25 min budget per segment (VERIF_H30=full lifts it)",
			NotExhaustive: "",
			Run: func(c *drv.Ctx, lo, hi int64) {
				for i := lo; i < hi; i++ {
					c.At(i)
					g := segs[i]
					res := e1.Lean(e1.Cfg{H: g.h, Hf: 1, SeedKind: 0, VSeed: c.Seed}, g.from, g.to, g.budget)
					c.Eval(res.Transitions)
					c.Count("states", res.States)
					c.Count("transitions", res.Transitions)
					c.Count("signatures", res.Signs)
					c.Nontrivial(res.Signs)
					if res.CappedAt != 0 {
						c.Cap(fmt.Sprintf("h=%d segment [%d,%d): time budget reached at index %d", g.h, g.from, g.to, res.CappedAt))
					}
					for _, f := range res.Fails {
						if own[f.Prop] {
							c.Fail(i, f.Prop+":"+f.Key, f.Details)
						}
					}
					c.Outcome(fmt.Sprintf("h=%d", g.h))
					c.Sample(map[string]any{"height": g.h, "from": g.from, "to": g.to, "signatures": res.Signs})
				}
			}})
	}
	ck.Domains = append(ck.Domains, extra...)
	switch prop {
	case "C01":
		ck.Rule = "explicit-state exploration of the real key object: every Sign from every reachable state verifies (real hashes: xmss.Verify + byte equality with a full-tree reference; symbolic: authentication path == exact sibling identities in every state and every signature). non-trivial = a successful signature or a successful forward jump of more than one index"
	case "C02":
		ck.Rule = "explicit-state exploration against the counter automaton idx in [0,2^h]: accept/refuse, index field, GetIndex, state preservation on refusal, constant identity, for every operation from every reachable state. non-trivial = a successful signature or forward jump > 1"
	case "C08":
		ck.Rule = "every crash index x every way of reaching it (BFS closure over the complete alphabet; lock-step Sign/SetIndex walkers; boundary jumps): full-state snapshot equality. non-trivial = a successful signature or forward jump > 1"
	case "C06":
		ck.Rule = "every index of every explored key: public key, every computed tree node, every authentication path and every signature byte-identical to the plain full-tree reference"
	}
	ck.Assumptions = []string{"real hashes explored to h<=12; larger heights rest on the symbolic mode, whose only assumption is that leaf generation is index-independent code",
		"symbolic abstraction is injective on node identities by construction and is bound to the code by event-for-event trace equality with the real-hash runs"}
	ck.Finish = func(cov map[string]any, m map[string]*drv.DomStats) {
		var st, tr, tv int64
		for _, d := range m {
			st += d.Counters["states"]
			tr += d.Counters["transitions"]
			tv += d.Counters["traces_validated"]
			for set, mem := range d.Sets {
				if len(mem) > 1 {
					cov["warning_trace_sets_"+set] = len(mem)
				}
			}
		}
		cov["states"] = st
		cov["transitions"] = tr
		cov["traces_validated_against_impl"] = tv
	}
	drv.Main(ck)
}
