// Package e2 is the stateless, preemption-bounded explorer over the cooperative scheduler
// (engine E2). It enumerates every interleaving of the managed threads at the instrumented
// conflicting accesses and lock operations with at most `bound` preemptions (bounds iterated
// 0,1,2,...), re-running the scenario from its initial state for every schedule.
package e2

import (
	"fmt"
	"time"

	vs "github.com/theQRL/go-qrllib/verifsched"
)

type Scenario struct {
	Name   string
	Reset  func()          // restore the initial state (stateless exploration)
	Bodies []func() string // thread bodies, each returns its observation
}

type point struct {
	enabled []int // canonical order: last-run thread first if still enabled, then ascending
	running int   // last-run thread (-1 at the start)
	runEn   bool
}

type Exec struct {
	Choices  []int
	points   []point
	Results  []string
	Deadlock bool
	Horizon  bool
	Events   int
}

type Stats struct {
	Executions, DecisionPoints, Branching, Preemptive int64
	PointsSeen                                        int64
	Outcomes                                          map[string]int64
	ConflictVars                                      []string
	BoundCompleted                                    int
	Restarts                                          int
	Capped                                            bool
}

// Progress, if set, is called after every execution (watchdog keep-alive).
var Progress func()

type Violation struct {
	Scenario string
	Choices  []int
	Results  []string
	Expected []string
	Why      string
}

type pend struct {
	kind int // -1 start, else vs.Ev*
	m    *vs.Mutex
	done bool
}

// run executes the scenario once following prefix (then choice 0).
func run(sc *Scenario, prefix []int) *Exec {
	sc.Reset()
	n := len(sc.Bodies)
	x := &Exec{Results: make([]string, n)}
	for t := 0; t < n; t++ {
		for i := range vs.Acc[t] {
			vs.Acc[t][i] = 0
		}
	}
	bodies := make([]func(), n)
	for i := range bodies {
		i := i
		bodies[i] = func() { x.Results[i] = sc.Bodies[i]() }
	}
	vs.Start(bodies)
	defer vs.Stop()
	ps := make([]pend, n)
	for i := range ps {
		ps[i].kind = -1
	}
	last := -1
	for {
		var en []int
		allDone := true
		for t := 0; t < n; t++ {
			if ps[t].done {
				continue
			}
			allDone = false
			if ps[t].kind == vs.EvLock && ps[t].m.Held() {
				continue
			}
			en = append(en, t)
		}
		if allDone {
			return x
		}
		if len(en) == 0 {
			x.Deadlock = true
			return x
		}
		// canonical order
		p := point{running: last}
		for _, t := range en {
			if t == last {
				p.runEn = true
			}
		}
		if p.runEn {
			p.enabled = append(p.enabled, last)
		}
		for _, t := range en {
			if t != last {
				p.enabled = append(p.enabled, t)
			}
		}
		i := len(x.points)
		c := 0
		if i < len(prefix) {
			c = prefix[i]
			if c >= len(p.enabled) {
				panic(fmt.Sprintf("e2: replay divergence at decision %d: choice %d of %d enabled", i, c, len(p.enabled)))
			}
		}
		x.points = append(x.points, p)
		x.Choices = append(x.Choices, c)
		t := p.enabled[c]
		ev := vs.Resume(t)
		x.Events++
		last = t
		switch ev.Kind {
		case vs.EvDone:
			ps[t].done = true
		case vs.EvPanic:
			ps[t].done = true
			x.Results[t] = fmt.Sprintf("harness-panic:%v", ev.Val)
		case vs.EvLock:
			ps[t].kind, ps[t].m = vs.EvLock, ev.M
		default:
			ps[t].kind, ps[t].m = vs.EvPoint, nil
		}
		if x.Events > vs.Horizon {
			x.Horizon = true
			return x
		}
	}
}

func (x *Exec) preemptionsBefore(i int) int {
	n := 0
	for k := 0; k < i; k++ {
		if x.points[k].runEn && x.Choices[k] != 0 {
			n++
		}
	}
	return n
}

// Explore enumerates all schedules with at most maxBound preemptions; check is called on every execution.
func Explore(sc *Scenario, maxBound int, expected []string, maxExec int64, budget time.Duration) (*Stats, *Violation) {
	deadline := time.Now().Add(budget)
	st := &Stats{Outcomes: map[string]int64{}, BoundCompleted: -1}
	for i := range vs.Conflict {
		vs.Conflict[i] = false
	}
	var viol *Violation
	check := func(x *Exec) bool {
		st.Executions++
		st.DecisionPoints += int64(len(x.points))
		for k, p := range x.points {
			if len(p.enabled) > 1 {
				st.Branching++
			}
			if p.runEn && x.Choices[k] != 0 {
				st.Preemptive++
			}
		}
		st.Outcomes[fmt.Sprint(x.Results)]++
		why := ""
		if x.Deadlock {
			why = "deadlock: no enabled thread"
		} else if x.Horizon {
			why = "horizon exceeded (livelock?)"
		} else {
			for t := range x.Results {
				if x.Results[t] != expected[t] {
					why = fmt.Sprintf("thread %d: result differs from the result of the same call run alone", t)
					break
				}
			}
		}
		if why != "" && viol == nil {
			viol = &Violation{Scenario: sc.Name, Choices: append([]int(nil), x.Choices...), Results: append([]string(nil), x.Results...), Expected: expected, Why: why}
		}
		return why == ""
	}
	// conflict-set fix point
	grow := func() bool {
		changed := false
		n := len(sc.Bodies)
		for id := 0; id < len(vs.VarNames) && id < vs.MaxVars; id++ {
			if vs.Conflict[id] {
				continue
			}
			for a := 0; a < n && !vs.Conflict[id]; a++ {
				for b := 0; b < n; b++ {
					if a != b && vs.Acc[a][id]&2 != 0 && vs.Acc[b][id] != 0 {
						vs.Conflict[id] = true
						changed = true
						break
					}
				}
			}
		}
		return changed
	}
	var explore func(prefix []int, bound int) bool
	explore = func(prefix []int, bound int) bool {
		if viol != nil || (maxExec > 0 && st.Executions >= maxExec) {
			return true
		}
		if budget > 0 && time.Now().After(deadline) {
			st.Capped = true
			return true
		}
		x := run(sc, prefix)
		if Progress != nil {
			Progress()
		}
		st.PointsSeen = vs.PointsSeen
		if grow() {
			return false // restart with the larger conflict set
		}
		check(x)
		pre := x.preemptionsBefore(len(prefix))
		for i := len(prefix); i < len(x.points); i++ {
			p := x.points[i]
			cost := pre
			if p.runEn && x.Choices[i] != 0 {
				pre++ // the executed choice at i was itself a preemption (only inside the replayed prefix)
			}
			if p.runEn {
				cost++
			}
			if cost > bound {
				continue
			}
			for alt := 1; alt < len(p.enabled); alt++ {
				np := append(append([]int{}, x.Choices[:i]...), alt)
				if !explore(np, bound) {
					return false
				}
			}
		}
		return true
	}
	for b := 0; b <= maxBound && viol == nil; b++ {
		for {
			// every bound re-explores from the empty prefix (iterative context bounding)
			save := *st
			if explore(nil, b) {
				break
			}
			// conflict set grew: discard this pass
			out := st.Outcomes
			*st = save
			st.Outcomes = out
			st.Restarts++
			if budget > 0 && time.Now().After(deadline) {
				st.Capped = true
				break
			}
		}
		if viol == nil && !(maxExec > 0 && st.Executions >= maxExec) && !st.Capped {
			st.BoundCompleted = b
		}
		if st.Capped {
			break
		}
	}
	for id := 0; id < len(vs.VarNames) && id < vs.MaxVars; id++ {
		if vs.Conflict[id] {
			st.ConflictVars = append(st.ConflictVars, vs.VarNames[id])
		}
	}
	return st, viol
}

// Replay re-executes one recorded schedule and returns the observations.
func Replay(sc *Scenario, choices []int, conflict []string) *Exec {
	for i := range vs.Conflict {
		vs.Conflict[i] = false
	}
	for _, name := range conflict {
		for id, n := range vs.VarNames {
			if n == name {
				vs.Conflict[id] = true
			}
		}
	}
	return run(sc, choices)
}
