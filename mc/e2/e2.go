// Package e2 is the stateless, preemption-bounded explorer over the cooperative scheduler
// (engine E2). It enumerates every interleaving of the managed threads at the instrumented
// conflicting accesses and lock operations with at most `bound` preemptions (bounds iterated
// 0,1,2,...), re-running the scenario from its initial state for every schedule.
package e2

import (
	"fmt"
	"sort"
	"strings"
	"time"

	vs "github.com/theQRL/go-qrllib/verifsched"
)

type Scenario struct {
	Name   string
	Reset  func()          // restore the initial state (stateless exploration)
	Bodies []func() string // thread bodies, each returns its observation
}

type point struct {
	enabled []int // canonical order: last-run thread first if still enabled, then ascending
	running int   // last-run thread (-1 at the start)
	runEn   bool
}

// Pt is the part of a decision point the explorer needs (also what a sub-process execution reports).
type Pt struct {
	N     int  `json:"n"`  // number of enabled threads
	RunEn bool `json:"re"` // the last-run thread is still enabled (choosing another one is a preemption)
}

type Exec struct {
	Choices  []int
	points   []point
	Pts      []Pt
	Results  []string
	Deadlock bool
	Horizon  bool
	Events   int
	// Acc[var] = per-thread access bits (1 read, 2 write) observed in this execution
	Acc        map[string][]uint8
	PointsSeen int64
	Err        string
	Diverged   bool
	Stuck      bool
}

// Backend executes the scenario once from its initial state, following prefix (then choice 0),
// with scheduler control at the given conflict variables (and at every lock operation).
type Backend func(prefix []int, conflict []string) *Exec

// InProcess runs executions in this process (initial state restored by sc.Reset).
func InProcess(sc *Scenario) Backend {
	return func(prefix []int, conflict []string) *Exec {
		for i := range vs.Conflict {
			vs.Conflict[i] = false
		}
		for _, name := range conflict {
			for id, n := range vs.VarNames {
				if n == name && id < vs.MaxVars {
					vs.Conflict[id] = true
				}
			}
		}
		return RunOnce(sc, prefix)
	}
}

// RunOnce executes sc once with the conflict set currently installed in the runtime and fills the exported fields.
func RunOnce(sc *Scenario, prefix []int) *Exec {
	x := run(sc, prefix)
	n := len(sc.Bodies)
	x.Acc = map[string][]uint8{}
	for id := 0; id < len(vs.VarNames) && id < vs.MaxVars; id++ {
		var bits []uint8
		any := false
		for t := 0; t < n; t++ {
			bits = append(bits, vs.Acc[t][id])
			if vs.Acc[t][id] != 0 {
				any = true
			}
		}
		if any {
			x.Acc[vs.VarNames[id]] = bits
		}
	}
	for _, p := range x.points {
		x.Pts = append(x.Pts, Pt{len(p.enabled), p.runEn})
	}
	x.PointsSeen = vs.PointsSeen
	return x
}

type Stats struct {
	Executions, DecisionPoints, Branching, Preemptive int64
	PointsSeen                                        int64
	Outcomes                                          map[string]int64
	ConflictVars                                      []string
	BoundCompleted                                    int
	Restarts                                          int
	Capped                                            bool
	Diverged                                          bool
	InfraErr                                          string
}

// Progress, if set, is called after every execution (watchdog keep-alive).
var Progress func()

type Violation struct {
	Conflict []string
	Scenario string
	Choices  []int
	Results  []string
	Expected []string
	Why      string
}

type pend struct {
	kind int // -1 start, else vs.Ev*
	m    *vs.Mutex
	done bool
}

// run executes the scenario once following prefix (then choice 0).
func run(sc *Scenario, prefix []int) *Exec {
	sc.Reset()
	n := len(sc.Bodies)
	x := &Exec{Results: make([]string, n)}
	for t := 0; t < n; t++ {
		for i := range vs.Acc[t] {
			vs.Acc[t][i] = 0
		}
	}
	bodies := make([]func(), n)
	for i := range bodies {
		i := i
		bodies[i] = func() { x.Results[i] = sc.Bodies[i]() }
	}
	vs.Start(bodies)
	defer vs.Stop()
	ps := make([]pend, n)
	for i := range ps {
		ps[i].kind = -1
	}
	last := -1
	for {
		var en []int
		allDone := true
		for t := 0; t < n; t++ {
			if ps[t].done {
				continue
			}
			allDone = false
			if ps[t].kind == vs.EvLock && ps[t].m.Held() {
				continue
			}
			en = append(en, t)
		}
		if allDone {
			return x
		}
		if len(en) == 0 {
			x.Deadlock = true
			return x
		}
		// canonical order
		p := point{running: last}
		for _, t := range en {
			if t == last {
				p.runEn = true
			}
		}
		if p.runEn {
			p.enabled = append(p.enabled, last)
		}
		for _, t := range en {
			if t != last {
				p.enabled = append(p.enabled, t)
			}
		}
		i := len(x.points)
		c := 0
		if i < len(prefix) {
			c = prefix[i]
			if c >= len(p.enabled) {
				// the same prefix no longer leads to the same decision point: the initial state was not the same
				// (library state surviving from earlier executions in this process). Run to completion with choice 0.
				x.Diverged = true
				c = 0
			}
		}
		x.points = append(x.points, p)
		x.Choices = append(x.Choices, c)
		t := p.enabled[c]
		ev := vs.Resume(t)
		x.Events++
		last = t
		switch ev.Kind {
		case vs.EvStuck:
			x.Err = "a managed thread did not reach its next scheduling point (blocked outside the scheduler's view)"
			x.Stuck = true
			return x
		case vs.EvDone:
			ps[t].done = true
		case vs.EvPanic:
			ps[t].done = true
			x.Results[t] = fmt.Sprintf("harness-panic:%v", ev.Val)
		case vs.EvLock:
			ps[t].kind, ps[t].m = vs.EvLock, ev.M
		default:
			ps[t].kind, ps[t].m = vs.EvPoint, nil
		}
		if x.Events > vs.Horizon {
			x.Horizon = true
			return x
		}
	}
}

func (x *Exec) preemptionsBefore(i int) int {
	n := 0
	for k := 0; k < i && k < len(x.Pts); k++ {
		if x.Pts[k].RunEn && x.Choices[k] != 0 {
			n++
		}
	}
	return n
}

// Explore enumerates all schedules with at most maxBound preemptions (bounds iterated 0,1,..); every
// execution is checked against `expected`. The conflict set starts empty and grows to a fix point:
// a variable becomes a scheduling point once two different threads touched it and one of them wrote.
func Explore(name string, be Backend, maxBound int, expected []string, maxExec int64, budget time.Duration) (*Stats, *Violation) {
	deadline := time.Now().Add(budget)
	st := &Stats{Outcomes: map[string]int64{}, BoundCompleted: -1}
	conflict := map[string]bool{}
	cl := func() []string {
		var l []string
		for k := range conflict {
			l = append(l, k)
		}
		sort.Strings(l)
		return l
	}
	var viol *Violation
	sawPreemptible := false
	check := func(x *Exec) {
		st.Executions++
		st.DecisionPoints += int64(len(x.Pts))
		for k, p := range x.Pts {
			if p.N > 1 {
				st.Branching++
			}
			if p.RunEn && p.N > 1 {
				sawPreemptible = true
			}
			if p.RunEn && x.Choices[k] != 0 {
				st.Preemptive++
			}
		}
		st.Outcomes[fmt.Sprint(x.Results)]++
		why := ""
		if x.Err != "" {
			why = "execution failed: " + x.Err
		} else if x.Deadlock {
			why = "deadlock: no enabled thread"
		} else if x.Horizon {
			why = "horizon exceeded (livelock?)"
		} else {
			for t := range x.Results {
				if t < len(expected) && x.Results[t] != expected[t] {
					why = fmt.Sprintf("thread %d: result differs from the result of the same call run alone", t)
					break
				}
			}
		}
		if why != "" && viol == nil {
			viol = &Violation{Scenario: name, Choices: append([]int(nil), x.Choices...), Results: append([]string(nil), x.Results...), Expected: expected, Why: why, Conflict: cl()}
		}
	}
	grow := func(x *Exec) bool {
		changed := false
		for v, bits := range x.Acc {
			if conflict[v] {
				continue
			}
			for a := range bits {
				for b := range bits {
					if a != b && bits[a]&2 != 0 && bits[b] != 0 && !conflict[v] {
						conflict[v] = true
						changed = true
					}
				}
			}
		}
		return changed
	}
	var explore func(prefix []int, bound int) bool
	explore = func(prefix []int, bound int) bool {
		if viol != nil || (maxExec > 0 && st.Executions >= maxExec) {
			return true
		}
		if budget > 0 && time.Now().After(deadline) {
			st.Capped = true
			return true
		}
		x := be(prefix, cl())
		if Progress != nil {
			Progress()
		}
		st.PointsSeen = x.PointsSeen
		if x.Err != "" && !x.Stuck && !strings.Contains(x.Err, "go-qrllib") {
			// the execution could not be run at all (process spawn failure, ...) and the library is not implicated:
			// an infrastructure cap, never a verdict
			st.InfraErr, st.Capped = x.Err, true
			return true
		}
		if x.Diverged || x.Stuck {
			st.Diverged, st.Capped = true, true
			return true
		}
		if x.Err == "" && grow(x) {
			return false // restart with the larger conflict set
		}
		check(x)
		pre := x.preemptionsBefore(len(prefix))
		for i := len(prefix); i < len(x.Pts); i++ {
			p := x.Pts[i]
			cost := pre
			if p.RunEn && x.Choices[i] != 0 {
				pre++
			}
			if p.RunEn {
				cost++
			}
			if cost > bound {
				continue
			}
			for alt := 1; alt < p.N; alt++ {
				np := append(append([]int{}, x.Choices[:i]...), alt)
				if !explore(np, bound) {
					return false
				}
			}
		}
		return true
	}
	for b := 0; b <= maxBound && viol == nil; b++ {
		if b > 0 && !sawPreemptible {
			// no execution had a point at which the running thread could be preempted:
			// higher bounds enumerate exactly the same schedules
			st.BoundCompleted = maxBound
			break
		}
		for {
			save := *st
			if explore(nil, b) {
				break
			}
			out := st.Outcomes
			*st = save
			st.Outcomes = out
			st.Restarts++
			sawPreemptible = false
			if budget > 0 && time.Now().After(deadline) {
				st.Capped = true
				break
			}
		}
		if viol == nil && !(maxExec > 0 && st.Executions >= maxExec) && !st.Capped {
			st.BoundCompleted = b
		}
		if st.Capped {
			break
		}
	}
	st.ConflictVars = cl()
	return st, viol
}

// Replay re-executes one recorded schedule and returns the observations.
func Replay(be Backend, choices []int, conflict []string) *Exec { return be(choices, conflict) }
