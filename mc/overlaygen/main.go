// overlaygen builds the `go build -overlay` JSON from the CURRENT working tree of the library:
//   - hook files (exported aliases / state access) are added to the library packages,
//   - the three XMSS seams are created by renaming the original functions on the current
//     source text and adding a dispatcher file,
//   - (set "sched") shared accesses are instrumented with scheduling points, see sched.go.
//
// Nothing under the repository is modified. Exit 2 = the tree no longer has the shape the
// hooks need (reported as infrastructure failure by ./check, never as a VIOLATION).
package main

import (
	"encoding/json"
	"flag"
	"fmt"
	"go/ast"
	"go/parser"
	"go/token"
	"os"
	"path/filepath"
	"sort"
	"strings"
)

type set struct {
	pkgDir string         // relative to repo
	hook   string         // file under hooks/
	seams  map[string]int // func name -> expected number of parameters (flattened)
	res    int            // number of results the seam functions have
}

var sets = map[string]set{
	"xmss_state": {pkgDir: "xmss", hook: "xmss_state.go.txt"},
	"xmss_int":   {pkgDir: "xmss", hook: "xmss_int.go.txt"},
	// optional: assembles a key object field by field (index bookkeeping at tall heights)
	"xmss_handbuilt": {pkgDir: "xmss", hook: "xmss_handbuilt.go.txt"},
	"xmss_seams":     {pkgDir: "xmss", hook: "xmss_seams.go.txt", seams: map[string]int{"genLeafWOTS": 7, "hashH": 6, "wotsSign": 7}},
	"dil_arith":      {pkgDir: "dilithium", hook: "dil_arith.go.txt"},
	"dil_pack":       {pkgDir: "dilithium", hook: "dil_pack.go.txt"},
	"dil_sample":     {pkgDir: "dilithium", hook: "dil_sample.go.txt"},
	// optional sets: vector-level helpers (a tree that reshapes them still gets the core domains, see ./check)
	"dil_sample_vec": {pkgDir: "dilithium", hook: "dil_sample_vec.go.txt"},
	"dil_arith_vec":  {pkgDir: "dilithium", hook: "dil_arith_vec.go.txt"},
	"dil_sample_g1":  {pkgDir: "dilithium", hook: "dil_sample_g1.go.txt"},
	"misc_codec":     {pkgDir: "misc", hook: "misc_codec.go.txt"},
	// optional seam: the signer's z-norm test can be made to answer "reject" a chosen number of times
	"dil_forcerej": {pkgDir: "dilithium", hook: "dil_forcerej.go.txt", seams: map[string]int{"polyVecLChkNorm": 2}, res: 1},
}

func die(f string, a ...any) {
	fmt.Fprintf(os.Stderr, "overlaygen: "+f+"\n", a...)
	os.Exit(2)
}

func main() {
	repo := flag.String("repo", "/repo", "library working tree")
	out := flag.String("out", "", "output directory (overlay.json and generated files)")
	hooks := flag.String("hooks", "", "directory holding the hook templates")
	want := flag.String("sets", "", "comma separated hook sets")
	flag.Parse()
	if *out == "" || *hooks == "" {
		die("need -out and -hooks")
	}
	replace := map[string]string{}
	names := strings.Split(*want, ",")
	sort.Strings(names)
	for _, name := range names {
		if name == "" {
			continue
		}
		if name == "sched" {
			if err := instrumentSched(*repo, *out, *hooks, replace); err != nil {
				die("sched instrumentation: %v", err)
			}
			continue
		}
		s, ok := sets[name]
		if !ok {
			die("unknown set %q", name)
		}
		src, err := os.ReadFile(filepath.Join(*hooks, s.hook))
		if err != nil {
			die("%v", err)
		}
		gen := filepath.Join(*out, "hook_"+name+".go")
		if err := os.WriteFile(gen, src, 0o644); err != nil {
			die("%v", err)
		}
		replace[filepath.Join(*repo, s.pkgDir, "zz_verif_"+name+".go")] = gen
		if len(s.seams) > 0 {
			if err := renameFuncs(*repo, s.pkgDir, *out, s.seams, s.res, replace); err != nil {
				die("%v", err)
			}
		}
	}
	b, _ := json.MarshalIndent(map[string]any{"Replace": replace}, "", " ")
	if err := os.WriteFile(filepath.Join(*out, "overlay.json"), b, 0o644); err != nil {
		die("%v", err)
	}
}

// renameFuncs renames top-level functions `name` to `nameVerifOrig` in the current source
// text (only the identifier in the declaration is touched; every call site keeps calling
// `name`, which the dispatcher file defines).
func renameFuncs(repo, pkgDir, out string, want map[string]int, wantRes int, replace map[string]string) error {
	dir := filepath.Join(repo, pkgDir)
	ents, err := os.ReadDir(dir)
	if err != nil {
		return err
	}
	found := map[string]bool{}
	for _, e := range ents {
		n := e.Name()
		if !strings.HasSuffix(n, ".go") || strings.HasSuffix(n, "_test.go") {
			continue
		}
		path := filepath.Join(dir, n)
		if r, ok := replace[path]; ok {
			path = r // already rewritten by another pass
		}
		src, err := os.ReadFile(path)
		if err != nil {
			return err
		}
		fset := token.NewFileSet()
		f, err := parser.ParseFile(fset, n, src, parser.ParseComments)
		if err != nil {
			return fmt.Errorf("parse %s: %v", n, err)
		}
		type edit struct{ off int }
		var edits []edit
		for _, d := range f.Decls {
			fd, ok := d.(*ast.FuncDecl)
			if !ok || fd.Recv != nil {
				continue
			}
			np, ok := want[fd.Name.Name]
			if !ok {
				continue
			}
			cnt := 0
			for _, fl := range fd.Type.Params.List {
				if len(fl.Names) == 0 {
					cnt++
				} else {
					cnt += len(fl.Names)
				}
			}
			nres := 0
			if fd.Type.Results != nil {
				for _, fl := range fd.Type.Results.List {
					if len(fl.Names) == 0 {
						nres++
					} else {
						nres += len(fl.Names)
					}
				}
			}
			if cnt != np || nres != wantRes {
				return fmt.Errorf("seam %s has %d parameters / %d results, expected %d / %d", fd.Name.Name, cnt, nres, np, wantRes)
			}
			found[fd.Name.Name] = true
			edits = append(edits, edit{fset.Position(fd.Name.End()).Offset})
		}
		if len(edits) == 0 {
			continue
		}
		sort.Slice(edits, func(i, j int) bool { return edits[i].off > edits[j].off })
		for _, e := range edits {
			src = append(src[:e.off:e.off], append([]byte("VerifOrig"), src[e.off:]...)...)
		}
		gen := filepath.Join(out, "seam_"+pkgDir+"_"+n)
		if err := os.WriteFile(gen, src, 0o644); err != nil {
			return err
		}
		replace[filepath.Join(dir, n)] = gen
	}
	for name := range want {
		if !found[name] {
			return fmt.Errorf("seam function %s not found in %s", name, pkgDir)
		}
	}
	return nil
}
