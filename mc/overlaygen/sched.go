package main

import "fmt"

// instrumentSched is implemented in sched_impl.go once E2 exists.
var instrumentSched = func(repo, out, hooks string, replace map[string]string) error {
	return fmt.Errorf("not built")
}
