package main

// Scheduling-point instrumentation for engine E2 (C15), purely syntactic (go/ast with the
// parser's object resolution), derived from the CURRENT source files:
//
//   Shared(v): v is a package-level variable of a library package (referenced bare inside its
//   package or qualified from another library package), or a field selected through a
//   receiver/parameter of type *T for T in sharedTypes, or a local assigned directly from a Shared
//   expression in the same function (one-level alias taint).
//
//   Before every statement that directly mentions a Shared variable (not inside a nested block,
//   which is handled on its own) `verifsched.Point(id, write)` is inserted; loop bodies get the
//   header's points at their top as well. write = the variable is assigned / inc-dec'ed / indexed
//   or selected on the left-hand side / address-taken / sliced or passed bare as a call argument /
//   the receiver of a method call / operand of delete, copy(dst), append target.
//
//   `import "sync"` is redirected to the cooperative shim in package verifsched.
//
// Over-approximation (more points, more "writes") only adds interleavings; the oracle is
// result-based, so it cannot cause a false alarm.

import (
	"bytes"
	"fmt"
	"go/ast"
	"go/parser"
	"go/printer"
	"go/token"
	"os"
	"path/filepath"
	"sort"
	"strconv"
	"strings"
)

const modPath = "github.com/theQRL/go-qrllib"

var libPkgs = []string{"xmss", "dilithium", "misc", "qrl", "common", "qrllib-js/xmssjs", "qrllib-js/dilithiumjs"}
var sharedTypes = map[string]map[string]bool{"dilithium": {"Dilithium": true}}

type instr struct {
	names   []string          // var id -> name
	ids     map[string]uint32 // name -> id
	pkgVars map[string]map[string]bool
	fields  map[string]map[string]map[string]bool // pkg -> type -> field set
	// retShared[pkg][func] = variable id: the function returns (a pointer/slice into) that shared variable,
	// so the local that receives its result is an alias of it (one inter-procedural level)
	retShared map[string]map[string]uint32
	sites     int
}

func (in *instr) id(name string) uint32 {
	if v, ok := in.ids[name]; ok {
		return v
	}
	v := uint32(len(in.names))
	in.names = append(in.names, name)
	in.ids[name] = v
	return v
}

func init() {
	instrumentSched = func(repo, out, hooks string, replace map[string]string) error {
		in := &instr{ids: map[string]uint32{}, pkgVars: map[string]map[string]bool{}, fields: map[string]map[string]map[string]bool{}, retShared: map[string]map[string]uint32{}}
		type pf struct {
			pkg, path, name string
			f               *ast.File
			fset            *token.FileSet
		}
		var files []pf
		pkgs := append([]string{}, libPkgs...)
		// the canary package is instrumented by the very same code
		canarySrc, err := os.ReadFile(filepath.Join(hooks, "canary.go.txt"))
		if err != nil {
			return err
		}
		for _, p := range pkgs {
			dir := filepath.Join(repo, p)
			ents, err := os.ReadDir(dir)
			if err != nil {
				continue
			}
			for _, e := range ents {
				n := e.Name()
				if !strings.HasSuffix(n, ".go") || strings.HasSuffix(n, "_test.go") {
					continue
				}
				path := filepath.Join(dir, n)
				srcPath := path
				if r, ok := replace[path]; ok {
					srcPath = r
				}
				src, err := os.ReadFile(srcPath)
				if err != nil {
					return err
				}
				fset := token.NewFileSet()
				f, err := parser.ParseFile(fset, n, src, parser.ParseComments)
				if err != nil {
					return err
				}
				files = append(files, pf{p, path, n, f, fset})
			}
		}
		{
			fset := token.NewFileSet()
			f, err := parser.ParseFile(fset, "canary.go", canarySrc, parser.ParseComments)
			if err != nil {
				return err
			}
			files = append(files, pf{"verifcanary", filepath.Join(repo, "verifcanary", "canary.go"), "canary.go", f, fset})
		}
		// pass 1: package-level variables and struct fields of shared types
		for _, x := range files {
			base := filepath.Base(x.pkg)
			if in.pkgVars[x.pkg] == nil {
				in.pkgVars[x.pkg] = map[string]bool{}
			}
			for _, d := range x.f.Decls {
				gd, ok := d.(*ast.GenDecl)
				if !ok {
					continue
				}
				for _, s := range gd.Specs {
					switch sp := s.(type) {
					case *ast.ValueSpec:
						if se, ok := sp.Type.(*ast.SelectorExpr); ok {
							if id, ok := se.X.(*ast.Ident); ok && id.Name == "sync" {
								continue // synchronisation objects are scheduling points by themselves (shim)
							}
						}
						if gd.Tok == token.VAR {
							for _, n := range sp.Names {
								if n.Name != "_" {
									in.pkgVars[x.pkg][n.Name] = true
								}
							}
						}
					case *ast.TypeSpec:
						if st, ok := sp.Type.(*ast.StructType); ok && (sharedTypes[base][sp.Name.Name] || x.pkg == "verifcanary") {
							if in.fields[x.pkg] == nil {
								in.fields[x.pkg] = map[string]map[string]bool{}
							}
							fs := map[string]bool{}
							for _, fl := range st.Fields.List {
								for _, n := range fl.Names {
									fs[n.Name] = true
								}
							}
							in.fields[x.pkg][sp.Name.Name] = fs
						}
					}
				}
			}
		}
		// pass 1.5: functions that return shared storage (two rounds, so that a wrapper of a wrapper is seen)
		for round := 0; round < 2; round++ {
			for _, x := range files {
				in.scanReturns(x.pkg, x.f)
			}
		}
		// pass 2: rewrite
		for _, x := range files {
			changed := in.rewriteFile(x.pkg, x.f)
			if !changed && x.pkg != "verifcanary" {
				continue
			}
			// comments inside function bodies are dropped: go/printer places them by position, the inserted
			// statements have none, and a comment in front of an instrumented statement would land in the
			// middle of the inserted call (doc comments and directives outside bodies are kept)
			var kept []*ast.CommentGroup
			for _, cg := range x.f.Comments {
				inside := false
				for _, d := range x.f.Decls {
					if fd, ok := d.(*ast.FuncDecl); ok && fd.Body != nil && cg.Pos() > fd.Body.Lbrace && cg.End() <= fd.Body.Rbrace {
						inside = true
					}
				}
				if !inside {
					kept = append(kept, cg)
				}
			}
			x.f.Comments = kept
			var buf bytes.Buffer
			if err := printer.Fprint(&buf, x.fset, x.f); err != nil {
				return err
			}
			gen := filepath.Join(out, "sched_"+strings.ReplaceAll(x.pkg, "/", "_")+"_"+x.name)
			if err := os.WriteFile(gen, buf.Bytes(), 0o644); err != nil {
				return err
			}
			replace[x.path] = gen
		}
		// runtime package + name table
		rt, err := os.ReadFile(filepath.Join(hooks, "verifsched.go.txt"))
		if err != nil {
			return err
		}
		gen := filepath.Join(out, "verifsched.go")
		if err := os.WriteFile(gen, rt, 0o644); err != nil {
			return err
		}
		replace[filepath.Join(repo, "verifsched", "sched.go")] = gen
		var tb bytes.Buffer
		tb.WriteString("package verifsched\n\n// generated by overlaygen: scheduling-point variable table\nvar VarNames = []string{\n")
		for _, n := range in.names {
			fmt.Fprintf(&tb, "\t%q,\n", n)
		}
		fmt.Fprintf(&tb, "}\n\nconst InstrumentedSites = %d\n", in.sites)
		gen2 := filepath.Join(out, "verifsched_names.go")
		if err := os.WriteFile(gen2, tb.Bytes(), 0o644); err != nil {
			return err
		}
		replace[filepath.Join(repo, "verifsched", "names.go")] = gen2
		return nil
	}
}

type access struct {
	id    uint32
	write bool
}

type fctx struct {
	in      *instr
	pkg     string
	imports map[string]string       // local name -> library package (relative path)
	topVals map[*ast.ValueSpec]bool // package-level value specs of this file
	shObjs  map[*ast.Object]string  // receiver/param objects of shared pointer types -> type name
	alias   map[*ast.Object]uint32  // tainted locals
}

func (in *instr) rewriteFile(pkg string, f *ast.File) bool {
	fc := &fctx{in: in, pkg: pkg, imports: map[string]string{}, topVals: map[*ast.ValueSpec]bool{}}
	usesSync := false
	for _, im := range f.Imports {
		p, _ := strconv.Unquote(im.Path.Value)
		if p == "sync" {
			usesSync = true
			im.Path.Value = strconv.Quote(modPath + "/verifsched")
			if im.Name == nil {
				im.Name = ast.NewIdent("sync")
			}
		}
		if strings.HasPrefix(p, modPath+"/") {
			rel := strings.TrimPrefix(p, modPath+"/")
			name := filepath.Base(rel)
			if im.Name != nil {
				name = im.Name.Name
			}
			fc.imports[name] = rel
		}
	}
	for _, d := range f.Decls {
		if gd, ok := d.(*ast.GenDecl); ok {
			for _, s := range gd.Specs {
				if vs, ok := s.(*ast.ValueSpec); ok {
					fc.topVals[vs] = true
				}
			}
		}
	}
	before := in.sites
	for _, d := range f.Decls {
		fd, ok := d.(*ast.FuncDecl)
		if !ok || fd.Body == nil {
			continue
		}
		fc.shObjs = map[*ast.Object]string{}
		fc.alias = map[*ast.Object]uint32{}
		mark := func(fl *ast.FieldList) {
			if fl == nil {
				return
			}
			for _, p := range fl.List {
				if st, ok := p.Type.(*ast.StarExpr); ok {
					if id, ok := st.X.(*ast.Ident); ok && in.fields[pkg][id.Name] != nil {
						for _, n := range p.Names {
							if n.Obj != nil {
								fc.shObjs[n.Obj] = id.Name
							}
						}
					}
				}
			}
		}
		mark(fd.Recv)
		mark(fd.Type.Params)
		fc.block(fd.Body)
	}
	changed := in.sites != before
	if changed {
		// add the import of the runtime package
		hasImp := false
		for _, im := range f.Imports {
			if p, _ := strconv.Unquote(im.Path.Value); p == modPath+"/verifsched" && im.Name != nil && im.Name.Name == "verifsched" {
				hasImp = true
			}
		}
		if !hasImp {
			spec := &ast.ImportSpec{Name: ast.NewIdent("verifsched"), Path: &ast.BasicLit{Kind: token.STRING, Value: strconv.Quote(modPath + "/verifsched")}}
			gd := &ast.GenDecl{Tok: token.IMPORT, Specs: []ast.Spec{spec}}
			f.Decls = append([]ast.Decl{gd}, f.Decls...)
			f.Imports = append(f.Imports, spec)
		}
	}
	return changed || usesSync
}

// shared resolves an expression that names a shared variable directly (ident, pkg.Var, recv.field, tainted local).
func (fc *fctx) shared(e ast.Expr) (uint32, bool) {
	switch x := e.(type) {
	case *ast.Ident:
		if x.Obj != nil {
			if id, ok := fc.alias[x.Obj]; ok {
				return id, true
			}
			if vs, ok := x.Obj.Decl.(*ast.ValueSpec); ok && fc.topVals[vs] && x.Obj.Kind == ast.Var {
				return fc.in.id(fc.pkg + "." + x.Name), true
			}
			return 0, false
		}
		if fc.in.pkgVars[fc.pkg][x.Name] {
			return fc.in.id(fc.pkg + "." + x.Name), true
		}
	case *ast.SelectorExpr:
		if id, ok := x.X.(*ast.Ident); ok {
			if id.Obj == nil {
				if rel, ok := fc.imports[id.Name]; ok && fc.in.pkgVars[rel][x.Sel.Name] {
					return fc.in.id(rel + "." + x.Sel.Name), true
				}
			} else if tn, ok := fc.shObjs[id.Obj]; ok && fc.in.fields[fc.pkg][tn][x.Sel.Name] {
				return fc.in.id(fc.pkg + "." + tn + "." + x.Sel.Name), true
			}
		}
	}
	return 0, false
}

// collect gathers the accesses in expression e (not descending into function literals).
func (fc *fctx) collect(e ast.Node, write bool, out *[]access) {
	if e == nil {
		return
	}
	switch x := e.(type) {
	case *ast.FuncLit:
		fc.block(x.Body)
		return
	case *ast.Ident:
		if id, ok := fc.shared(x); ok {
			*out = append(*out, access{id, write})
		}
		return
	case *ast.SelectorExpr:
		if id, ok := fc.shared(x); ok {
			*out = append(*out, access{id, write})
			return
		}
		fc.collect(x.X, write, out)
		return
	case *ast.IndexExpr:
		fc.collect(x.X, write, out)
		fc.collect(x.Index, false, out)
		return
	case *ast.SliceExpr:
		fc.collect(x.X, true, out) // a slice of shared storage escapes: treat as write
		fc.collect(x.Low, false, out)
		fc.collect(x.High, false, out)
		fc.collect(x.Max, false, out)
		return
	case *ast.StarExpr:
		fc.collect(x.X, write, out)
		return
	case *ast.ParenExpr:
		fc.collect(x.X, write, out)
		return
	case *ast.UnaryExpr:
		fc.collect(x.X, write || x.Op == token.AND, out)
		return
	case *ast.CallExpr:
		// method call on a shared variable: may mutate
		if se, ok := x.Fun.(*ast.SelectorExpr); ok {
			if _, isPkg := fc.pkgIdent(se.X); !isPkg {
				fc.collect(se.X, true, out)
			}
		} else {
			fc.collect(x.Fun, false, out)
		}
		fn := ""
		if id, ok := x.Fun.(*ast.Ident); ok && id.Obj == nil {
			fn = id.Name
		}
		for i, a := range x.Args {
			w := false
			switch fn {
			case "len", "cap":
				w = false
			case "delete", "copy", "clear":
				w = i == 0
			default:
				// a bare shared variable (map, slice, pointer, array address) handed to a callee may be written through
				switch a.(type) {
				case *ast.Ident, *ast.SelectorExpr:
					w = true
				}
			}
			fc.collect(a, w, out)
		}
		return
	case *ast.BinaryExpr:
		fc.collect(x.X, false, out)
		fc.collect(x.Y, false, out)
		return
	case *ast.KeyValueExpr:
		fc.collect(x.Key, false, out)
		fc.collect(x.Value, false, out)
		return
	case *ast.CompositeLit:
		for _, el := range x.Elts {
			fc.collect(el, false, out)
		}
		return
	case *ast.TypeAssertExpr:
		fc.collect(x.X, write, out)
		return
	}
}

func (fc *fctx) pkgIdent(e ast.Expr) (string, bool) {
	if id, ok := e.(*ast.Ident); ok && id.Obj == nil {
		if rel, ok := fc.imports[id.Name]; ok {
			return rel, true
		}
		// other imported packages (fmt, hex, ...): an unresolved identifier that is not a package-level var of this package
		if !fc.in.pkgVars[fc.pkg][id.Name] {
			return id.Name, true
		}
	}
	return "", false
}

// header collects the accesses of a statement's own expressions (not nested blocks).
func (fc *fctx) header(s ast.Stmt, out *[]access) {
	switch x := s.(type) {
	case *ast.ExprStmt:
		fc.collect(x.X, false, out)
	case *ast.AssignStmt:
		for _, r := range x.Rhs {
			fc.collect(r, false, out)
		}
		for _, l := range x.Lhs {
			fc.collect(l, true, out)
		}
		// alias taint: local := <shared> | &<shared> | <shared>[:]
		if len(x.Lhs) == len(x.Rhs) {
			for i, r := range x.Rhs {
				base := r
				for {
					switch b := base.(type) {
					case *ast.UnaryExpr:
						if b.Op == token.AND {
							base = b.X
							continue
						}
					case *ast.SliceExpr:
						base = b.X
						continue
					case *ast.ParenExpr:
						base = b.X
						continue
					}
					break
				}
				id, ok := fc.shared(base)
				if !ok {
					id, ok = fc.callReturnsShared(base)
				}
				if ok {
					if l, ok := x.Lhs[i].(*ast.Ident); ok && l.Obj != nil {
						if vs, isVS := l.Obj.Decl.(*ast.ValueSpec); !isVS || !fc.topVals[vs] {
							fc.alias[l.Obj] = id
						}
					}
				}
			}
		}
	case *ast.IncDecStmt:
		fc.collect(x.X, true, out)
	case *ast.ReturnStmt:
		for _, r := range x.Results {
			fc.collect(r, false, out)
		}
	case *ast.DeclStmt:
		if gd, ok := x.Decl.(*ast.GenDecl); ok {
			for _, sp := range gd.Specs {
				if vs, ok := sp.(*ast.ValueSpec); ok {
					for _, v := range vs.Values {
						fc.collect(v, false, out)
					}
				}
			}
		}
	case *ast.GoStmt:
		fc.collect(x.Call, false, out)
	case *ast.DeferStmt:
		fc.collect(x.Call, false, out)
	case *ast.SendStmt:
		fc.collect(x.Chan, true, out)
		fc.collect(x.Value, false, out)
	case *ast.IfStmt:
		if x.Init != nil {
			fc.header(x.Init, out)
		}
		fc.collect(x.Cond, false, out)
		if e, ok := x.Else.(*ast.IfStmt); ok {
			fc.header(e, out)
		}
	case *ast.ForStmt:
		if x.Init != nil {
			fc.header(x.Init, out)
		}
		fc.collect(x.Cond, false, out)
		if x.Post != nil {
			fc.header(x.Post, out)
		}
	case *ast.RangeStmt:
		fc.collect(x.X, false, out)
		fc.collect(x.Key, true, out)
		fc.collect(x.Value, true, out)
	case *ast.SwitchStmt:
		if x.Init != nil {
			fc.header(x.Init, out)
		}
		fc.collect(x.Tag, false, out)
		for _, cc := range x.Body.List {
			for _, e := range cc.(*ast.CaseClause).List {
				fc.collect(e, false, out)
			}
		}
	case *ast.TypeSwitchStmt:
		if x.Init != nil {
			fc.header(x.Init, out)
		}
		fc.header(x.Assign, out)
	case *ast.LabeledStmt:
		fc.header(x.Stmt, out)
	}
}

func (fc *fctx) points(acc []access) []ast.Stmt {
	// merge duplicates (write wins), keep a stable order
	m := map[uint32]bool{}
	var order []uint32
	for _, a := range acc {
		if _, ok := m[a.id]; !ok {
			order = append(order, a.id)
		}
		m[a.id] = m[a.id] || a.write
	}
	sort.Slice(order, func(i, j int) bool { return order[i] < order[j] })
	var out []ast.Stmt
	for _, id := range order {
		fc.in.sites++
		w := "false"
		if m[id] {
			w = "true"
		}
		out = append(out, &ast.ExprStmt{X: &ast.CallExpr{
			Fun:  &ast.SelectorExpr{X: ast.NewIdent("verifsched"), Sel: ast.NewIdent("Point")},
			Args: []ast.Expr{&ast.BasicLit{Kind: token.INT, Value: strconv.Itoa(int(id))}, ast.NewIdent(w)},
		}})
	}
	return out
}

func (fc *fctx) list(in []ast.Stmt) []ast.Stmt {
	var out []ast.Stmt
	for _, s := range in {
		var acc []access
		fc.header(s, &acc)
		pts := fc.points(acc)
		out = append(out, pts...)
		out = append(out, s)
		fc.nested(s, acc)
	}
	return out
}

// nested instruments the blocks inside statement s; loop bodies re-issue the header's points at their top.
func (fc *fctx) nested(s ast.Stmt, hdr []access) {
	switch x := s.(type) {
	case *ast.BlockStmt:
		fc.block(x)
	case *ast.IfStmt:
		fc.block(x.Body)
		switch e := x.Else.(type) {
		case *ast.BlockStmt:
			fc.block(e)
		case *ast.IfStmt:
			fc.nested(e, nil)
		}
	case *ast.ForStmt:
		fc.block(x.Body)
		if len(hdr) > 0 {
			x.Body.List = append(fc.points(hdr), x.Body.List...)
		}
	case *ast.RangeStmt:
		fc.block(x.Body)
		if len(hdr) > 0 {
			x.Body.List = append(fc.points(hdr), x.Body.List...)
		}
	case *ast.SwitchStmt:
		for _, cc := range x.Body.List {
			c := cc.(*ast.CaseClause)
			c.Body = fc.list(c.Body)
		}
	case *ast.TypeSwitchStmt:
		for _, cc := range x.Body.List {
			c := cc.(*ast.CaseClause)
			c.Body = fc.list(c.Body)
		}
	case *ast.SelectStmt:
		for _, cc := range x.Body.List {
			c := cc.(*ast.CommClause)
			c.Body = fc.list(c.Body)
		}
	case *ast.LabeledStmt:
		fc.nested(x.Stmt, hdr)
	}
}

func (fc *fctx) block(b *ast.BlockStmt) {
	if b == nil {
		return
	}
	b.List = fc.list(b.List)
}

// callReturnsShared: e is a call of a library function known to return shared storage.
func (fc *fctx) callReturnsShared(e ast.Expr) (uint32, bool) {
	ce, ok := e.(*ast.CallExpr)
	if !ok {
		return 0, false
	}
	switch f := ce.Fun.(type) {
	case *ast.Ident:
		if id, ok := fc.in.retShared[fc.pkg][f.Name]; ok {
			return id, true
		}
	case *ast.SelectorExpr:
		if rel, ok := fc.pkgIdent(f.X); ok {
			if id, ok := fc.in.retShared[rel][f.Sel.Name]; ok {
				return id, true
			}
		}
	}
	return 0, false
}

func stripAddr(e ast.Expr) ast.Expr {
	for {
		switch b := e.(type) {
		case *ast.UnaryExpr:
			if b.Op == token.AND {
				e = b.X
				continue
			}
		case *ast.SliceExpr:
			e = b.X
			continue
		case *ast.ParenExpr:
			e = b.X
			continue
		case *ast.IndexExpr:
			e = b.X // &table[i] / table[i] of pointer elements
			continue
		}
		return e
	}
}

// scanReturns records the top-level functions of file f that return (an address into) a shared variable.
func (in *instr) scanReturns(pkg string, f *ast.File) {
	fc := &fctx{in: in, pkg: pkg, imports: map[string]string{}, topVals: map[*ast.ValueSpec]bool{}}
	for _, im := range f.Imports {
		p, _ := strconv.Unquote(im.Path.Value)
		if strings.HasPrefix(p, modPath+"/") {
			rel := strings.TrimPrefix(p, modPath+"/")
			name := filepath.Base(rel)
			if im.Name != nil {
				name = im.Name.Name
			}
			fc.imports[name] = rel
		}
	}
	for _, d := range f.Decls {
		if gd, ok := d.(*ast.GenDecl); ok {
			for _, s := range gd.Specs {
				if vs, ok := s.(*ast.ValueSpec); ok {
					fc.topVals[vs] = true
				}
			}
		}
	}
	for _, d := range f.Decls {
		fd, ok := d.(*ast.FuncDecl)
		if !ok || fd.Body == nil || fd.Recv != nil {
			continue
		}
		fc.shObjs = map[*ast.Object]string{}
		fc.alias = map[*ast.Object]uint32{}
		ast.Inspect(fd.Body, func(n ast.Node) bool {
			if as, ok := n.(*ast.AssignStmt); ok && len(as.Lhs) == len(as.Rhs) {
				for i, r := range as.Rhs {
					base := stripAddr(r)
					id, ok := fc.shared(base)
					if !ok {
						id, ok = fc.callReturnsShared(base)
					}
					if ok {
						if l, ok := as.Lhs[i].(*ast.Ident); ok && l.Obj != nil {
							if vs, isVS := l.Obj.Decl.(*ast.ValueSpec); !isVS || !fc.topVals[vs] {
								fc.alias[l.Obj] = id
							}
						}
					}
				}
			}
			return true
		})
		ast.Inspect(fd.Body, func(n ast.Node) bool {
			if _, ok := n.(*ast.FuncLit); ok {
				return false
			}
			if rs, ok := n.(*ast.ReturnStmt); ok {
				for _, r := range rs.Results {
					base := stripAddr(r)
					// returning the VALUE of a scalar global is not an alias; only addresses, slices, maps, pointers matter.
					// Without types: a bare identifier / selector is treated as an alias only if the result was address-taken,
					// sliced, or the variable is a tainted local (which itself came from an address/slice/map/pointer).
					_, bare := r.(*ast.Ident)
					if id, ok := fc.shared(base); ok {
						if l, isId := base.(*ast.Ident); bare && isId && l.Obj != nil {
							if _, tainted := fc.alias[l.Obj]; !tainted {
								// bare package-level variable returned by value: maps, slices and pointers alias; assume alias
							}
						}
						if in.retShared[pkg] == nil {
							in.retShared[pkg] = map[string]uint32{}
						}
						in.retShared[pkg][fd.Name.Name] = id
					}
				}
			}
			return true
		})
	}
}
