// Package refcodec holds the boring reference models for the codecs: the mnemonic codec as
// "big-endian bit string cut into 12-bit groups", and a generic LSB-first bit-stream packer.
// It imports nothing from the library except the word list, which is passed in by the caller.
package refcodec

import (
	"errors"
	"strings"
)

// Encode cuts the big-endian bit string of b into 12-bit groups. len(b)*8 must be a multiple of 12.
func Encode(words []string, b []byte) string {
	nbits := len(b) * 8
	var out []string
	for off := 0; off+12 <= nbits; off += 12 {
		v := 0
		for k := 0; k < 12; k++ {
			bit := off + k
			v = v<<1 | int(b[bit/8]>>(7-uint(bit%8))&1)
		}
		out = append(out, words[v])
	}
	return strings.Join(out, " ")
}

// Decode is strict: words separated by exactly one space, every word in the list (exact case),
// even word count.
func Decode(index map[string]int, p string) ([]byte, error) {
	ws := strings.Split(p, " ")
	if len(ws)%2 != 0 {
		return nil, errors.New("odd word count")
	}
	bits := make([]byte, 0, len(ws)*12)
	for _, w := range ws {
		v, ok := index[w]
		if !ok {
			return nil, errors.New("unknown word")
		}
		for k := 11; k >= 0; k-- {
			bits = append(bits, byte(v>>uint(k)&1))
		}
	}
	out := make([]byte, len(bits)/8)
	for i, b := range bits {
		out[i/8] |= b << (7 - uint(i%8))
	}
	return out, nil
}

// PackBits packs vals (each `width` bits, already transformed to unsigned) LSB-first.
func PackBits(vals []uint32, width int) []byte {
	out := make([]byte, (len(vals)*width+7)/8)
	pos := 0
	for _, v := range vals {
		for k := 0; k < width; k++ {
			if v>>uint(k)&1 == 1 {
				out[pos/8] |= 1 << uint(pos%8)
			}
			pos++
		}
	}
	return out
}

// UnpackBits is the inverse of PackBits.
func UnpackBits(b []byte, width, n int) []uint32 {
	out := make([]uint32, n)
	pos := 0
	for i := 0; i < n; i++ {
		var v uint32
		for k := 0; k < width; k++ {
			v |= uint32(b[pos/8]>>uint(pos%8)&1) << uint(k)
			pos++
		}
		out[i] = v
	}
	return out
}
