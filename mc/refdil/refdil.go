// Package refdil is a specification-level implementation of CRYSTALS-Dilithium (round 3.1,
// level-5 parameters) with PLAIN arithmetic: integers mod q on int64, schoolbook negacyclic
// products, Power2Round/Decompose/MakeHint/UseHint from their defining equations, bit-stream
// packers, samplers from the specification text. No NTT, no Montgomery form, nothing imported
// from the library. It records the path taken through the rejection loop and can be told to
// skip exactly one signing-side check (rogue signer, used by C05).
package refdil

import (
	"golang.org/x/crypto/sha3"
)

const (
	Q      = 8380417
	N      = 256
	D      = 13
	K      = 8
	L      = 7
	ETA    = 2
	TAU    = 60
	BETA   = 120
	GAMMA1 = 1 << 19
	GAMMA2 = (Q - 1) / 32
	OMEGA  = 75

	PKBytes  = 32 + K*320
	SKBytes  = 3*32 + L*96 + K*96 + K*416
	SigBytes = 32 + L*640 + OMEGA + K
)

type Poly [N]int64

func Mod(a int64) int64 {
	r := a % Q
	if r < 0 {
		r += Q
	}
	return r
}

// Centre returns the representative in [-(q-1)/2, (q-1)/2].
func Centre(a int64) int64 {
	r := Mod(a)
	if r > (Q-1)/2 {
		r -= Q
	}
	return r
}

func modpm(a, m int64) int64 {
	r := a % m
	if r < 0 {
		r += m
	}
	if r > m/2 {
		r -= m
	}
	return r
}

// Mul is the schoolbook product in Z_q[X]/(X^256+1); result coefficients in [0,q).
func Mul(a, b *Poly) (r Poly) {
	var acc [N]int64
	var am, bm [N]int64
	for i := 0; i < N; i++ {
		am[i], bm[i] = Centre(a[i]), Centre(b[i])
	}
	for i := 0; i < N; i++ {
		if am[i] == 0 {
			continue
		}
		for j := 0; j < N; j++ {
			p := am[i] * bm[j] // |p| < 2^44
			if i+j >= N {
				acc[i+j-N] -= p
			} else {
				acc[i+j] += p
			}
		}
	}
	for i := range acc {
		r[i] = Mod(acc[i])
	}
	return
}

func Add(a, b *Poly) (r Poly) {
	for i := range r {
		r[i] = Mod(a[i] + b[i])
	}
	return
}
func Sub(a, b *Poly) (r Poly) {
	for i := range r {
		r[i] = Mod(a[i] - b[i])
	}
	return
}

func InfNorm(ps []Poly) int64 {
	m := int64(0)
	for i := range ps {
		for _, c := range ps[i] {
			v := Centre(c)
			if v < 0 {
				v = -v
			}
			if v > m {
				m = v
			}
		}
	}
	return m
}

func Power2Round(a int64) (a1, a0 int64) {
	a = Mod(a)
	a0 = modpm(a, 1<<D)
	return (a - a0) >> D, a0
}

func Decompose(a int64) (a1, a0 int64) {
	a = Mod(a)
	a0 = modpm(a, 2*GAMMA2)
	if a-a0 == Q-1 {
		return 0, a0 - 1
	}
	return (a - a0) / (2 * GAMMA2), a0
}

func HighBits(a int64) int64 { h, _ := Decompose(a); return h }

func UseHint(h int64, a int64) int64 {
	a1, a0 := Decompose(a)
	if h == 0 {
		return a1
	}
	if a0 > 0 {
		return (a1 + 1) % 16
	}
	return (a1 + 15) % 16
}

func shake256(outLen int, parts ...[]byte) []byte {
	h := sha3.NewShake256()
	for _, p := range parts {
		h.Write(p)
	}
	out := make([]byte, outLen)
	h.Read(out)
	return out
}

// ---- plain (O(n^2)) number-theoretic transform: evaluation at the 256 roots of X^256+1 ----
// NTT(a) = (a(r_0), a(-r_0), ..., a(r_127), a(-r_127)), r_i = 1753^brv8(128+i)  (specification, section 2.2).

var roots, rootsInv [N]int64

func powmod(b, e int64) int64 {
	r := int64(1)
	b = Mod(b)
	for ; e > 0; e >>= 1 {
		if e&1 == 1 {
			r = r * b % Q
		}
		b = b * b % Q
	}
	return r
}

func init() {
	brv := func(k int) int {
		r := 0
		for i := 0; i < 8; i++ {
			r |= (k >> uint(i) & 1) << uint(7-i)
		}
		return r
	}
	for i := 0; i < 128; i++ {
		r := powmod(1753, int64(brv(128+i)))
		roots[2*i], roots[2*i+1] = r, Q-r
	}
	for k := range roots {
		rootsInv[k] = powmod(roots[k], Q-2)
	}
}

// Eval returns the NTT-domain representation of a (plain Horner evaluation at every root).
func Eval(a *Poly) (h Poly) {
	for k := 0; k < N; k++ {
		acc := int64(0)
		for j := N - 1; j >= 0; j-- {
			acc = (acc*roots[k] + Mod(a[j])) % Q
		}
		h[k] = acc
	}
	return
}

// Interp is the inverse of Eval: a_j = 256^-1 * sum_k h_k * root_k^-j.
func Interp(h *Poly) (a Poly) {
	inv256 := powmod(256, Q-2)
	var pw [N]int64
	for k := range pw {
		pw[k] = 1
	}
	for j := 0; j < N; j++ {
		acc := int64(0)
		for k := 0; k < N; k++ {
			acc = (acc + Mod(h[k])*pw[k]) % Q
			pw[k] = pw[k] * rootsInv[k] % Q
		}
		a[j] = acc * inv256 % Q
	}
	return
}

// ExpandA: the matrix is sampled in NTT-domain representation (specification), entry (i,j) from
// SHAKE-128(rho || le16(256*i+j)) by 23-bit rejection sampling t < q; it is converted to the
// coefficient domain here so that every product below is a schoolbook product.
func ExpandA(rho []byte) (A [K][L]Poly) {
	for i := 0; i < K; i++ {
		for j := 0; j < L; j++ {
			h := ExpandAEntry(rho, i, j)
			A[i][j] = Interp(&h)
		}
	}
	return
}

// ExpandS: eta=2 sampling from SHAKE-256(rho' || le16(nonce)), nibble rejection < 15, value 2 - (nib mod 5).
func ExpandS(rhoPrime []byte, nonce uint16) (p Poly) {
	h := sha3.NewShake256()
	h.Write(rhoPrime)
	h.Write([]byte{byte(nonce), byte(nonce >> 8)})
	var b [1]byte
	for ctr := 0; ctr < N; {
		h.Read(b[:])
		for _, t := range []int64{int64(b[0] & 15), int64(b[0] >> 4)} {
			if t < 15 && ctr < N {
				p[ctr] = Mod(2 - t%5)
				ctr++
			}
		}
	}
	return
}

// ExpandMask: y from SHAKE-256(rho” || le16(nonce)), 640 bytes, 20 bits per coefficient, gamma1 - v.
func ExpandMask(rhoPP []byte, nonce uint16) (p Poly) {
	buf := shake256(640, rhoPP, []byte{byte(nonce), byte(nonce >> 8)})
	for i, v := range unpackBits(buf, 20, N) {
		p[i] = Mod(GAMMA1 - int64(v))
	}
	return
}

// SampleInBall: tau = 60 coefficients +-1.
func SampleInBall(ctilde []byte) (c Poly) {
	h := sha3.NewShake256()
	h.Write(ctilde)
	var s [8]byte
	h.Read(s[:])
	signs := uint64(0)
	for i := 0; i < 8; i++ {
		signs |= uint64(s[i]) << (8 * uint(i))
	}
	var b [1]byte
	for i := N - TAU; i < N; i++ {
		for {
			h.Read(b[:])
			if int(b[0]) <= i {
				break
			}
		}
		c[i] = c[b[0]]
		if signs&1 == 1 {
			c[b[0]] = Q - 1
		} else {
			c[b[0]] = 1
		}
		signs >>= 1
	}
	return
}

func packBits(vals []uint32, width int) []byte {
	out := make([]byte, (len(vals)*width+7)/8)
	pos := 0
	for _, v := range vals {
		for k := 0; k < width; k++ {
			if v>>uint(k)&1 == 1 {
				out[pos/8] |= 1 << uint(pos%8)
			}
			pos++
		}
	}
	return out
}

func unpackBits(b []byte, width, n int) []uint32 {
	out := make([]uint32, n)
	pos := 0
	for i := 0; i < n; i++ {
		var v uint32
		for k := 0; k < width; k++ {
			v |= uint32(b[pos/8]>>uint(pos%8)&1) << uint(k)
			pos++
		}
		out[i] = v
	}
	return out
}

// PackPoly packs f(c) for each coefficient with `width` bits (f maps the centred/positive value to an unsigned one).
func PackPoly(p *Poly, width int, f func(c int64) int64) []byte {
	vals := make([]uint32, N)
	for i, c := range p {
		vals[i] = uint32(f(c))
	}
	return packBits(vals, width)
}

func PackT1(p *Poly) []byte { return PackPoly(p, 10, func(c int64) int64 { return c }) }
func PackT0(p *Poly) []byte {
	return PackPoly(p, 13, func(c int64) int64 { return (1 << (D - 1)) - Centre(c) })
}
func PackEta(p *Poly) []byte { return PackPoly(p, 3, func(c int64) int64 { return ETA - Centre(c) }) }
func PackZ(p *Poly) []byte   { return PackPoly(p, 20, func(c int64) int64 { return GAMMA1 - Centre(c) }) }
func PackW1(p *Poly) []byte  { return PackPoly(p, 4, func(c int64) int64 { return c }) }

func UnpackT1(b []byte) (p Poly) {
	for i, v := range unpackBits(b, 10, N) {
		p[i] = int64(v)
	}
	return
}
func UnpackT0(b []byte) (p Poly) {
	for i, v := range unpackBits(b, 13, N) {
		p[i] = Mod((1 << (D - 1)) - int64(v))
	}
	return
}
func UnpackEta(b []byte) (p Poly) {
	for i, v := range unpackBits(b, 3, N) {
		p[i] = Mod(ETA - int64(v))
	}
	return
}
func UnpackZ(b []byte) (p Poly) {
	for i, v := range unpackBits(b, 20, N) {
		p[i] = Mod(GAMMA1 - int64(v))
	}
	return
}

// EncodeHint: canonical encoding of a hint vector (weight <= omega assumed).
func EncodeHint(h *[K]Poly) []byte {
	out := make([]byte, OMEGA+K)
	k := 0
	for i := 0; i < K; i++ {
		for j := 0; j < N; j++ {
			if h[i][j] != 0 {
				if k < OMEGA {
					out[k] = byte(j)
				}
				k++
			}
		}
		out[OMEGA+i] = byte(k)
	}
	return out
}

// DecodeHint accepts exactly the canonical encodings of hint vectors of weight <= omega.
func DecodeHint(b []byte) (h [K]Poly, ok bool) {
	k := 0
	for i := 0; i < K; i++ {
		end := int(b[OMEGA+i])
		if end < k || end > OMEGA {
			return h, false
		}
		for j := k; j < end; j++ {
			if j > k && b[j] <= b[j-1] {
				return h, false
			}
			h[i][b[j]] = 1
		}
		k = end
	}
	for j := k; j < OMEGA; j++ {
		if b[j] != 0 {
			return h, false
		}
	}
	return h, true
}

type Key struct {
	Rho, KeySeed, Tr []byte
	S1               [L]Poly
	S2, T0, T1       [K]Poly
	AS1              [K]Poly // A*s1 mod q, before s2 is added (for boundary classification of key generation)
	A                [K][L]Poly
	PK, SK           []byte
}

// KeyGenFromWalletSeed applies the library-level wrapper: zeta = SHAKE256(seed48)[0:32].
func KeyGenFromWalletSeed(seed48 []byte) *Key { return KeyGen(shake256(32, seed48)) }

func KeyGen(zeta []byte) *Key {
	e := shake256(128, zeta)
	k := &Key{Rho: e[0:32], KeySeed: e[96:128]}
	rhoPrime := e[32:96]
	k.A = ExpandA(k.Rho)
	for i := 0; i < L; i++ {
		k.S1[i] = ExpandS(rhoPrime, uint16(i))
	}
	for i := 0; i < K; i++ {
		k.S2[i] = ExpandS(rhoPrime, uint16(L+i))
	}
	for i := 0; i < K; i++ {
		var t Poly
		for j := 0; j < L; j++ {
			m := Mul(&k.A[i][j], &k.S1[j])
			t = Add(&t, &m)
		}
		k.AS1[i] = t
		t = Add(&t, &k.S2[i])
		for c := 0; c < N; c++ {
			a1, a0 := Power2Round(t[c])
			k.T1[i][c], k.T0[i][c] = a1, Mod(a0)
		}
	}
	k.PK = append([]byte(nil), k.Rho...)
	for i := 0; i < K; i++ {
		k.PK = append(k.PK, PackT1(&k.T1[i])...)
	}
	k.Tr = shake256(32, k.PK)
	k.SK = append(append(append([]byte(nil), k.Rho...), k.KeySeed...), k.Tr...)
	for i := 0; i < L; i++ {
		k.SK = append(k.SK, PackEta(&k.S1[i])...)
	}
	for i := 0; i < K; i++ {
		k.SK = append(k.SK, PackEta(&k.S2[i])...)
	}
	for i := 0; i < K; i++ {
		k.SK = append(k.SK, PackT0(&k.T0[i])...)
	}
	return k
}

// Iter describes one iteration of the rejection loop.
type Iter struct {
	Exit      string // "z" | "r0" | "ct0" | "hint" | "accept"
	SlackZ    int64  // max|z| - (gamma1-beta)   (>= 0 rejects)
	SlackR0   int64  // max|w0-cs2| - (gamma2-beta)
	SlackCt0  int64  // max|ct0| - gamma2
	SlackHint int64  // #hints - omega          (> 0 rejects)
}

type Skip struct {
	Z, R0, Ct0, Hint bool
	OnlyIter         int // 0: the skips apply to every iteration; k>0: only to iteration k (1-based)
	ChallengeXor     []byte // rogue signer: XORed into the 32-byte challenge seed c~ of every iteration BEFORE the challenge polynomial, z and the hints are derived from it (the published c~ is then not H(mu || w1))
	ForceReject      int // the first ForceReject iterations are rejected whatever their values (exit "forced"; nothing is computed for them)
	// StopAt >= 0: emit the signature of iteration StopAt regardless of its checks (only the skipped ones are ignored).
}

type SignResult struct {
	Sig    []byte
	Path   []Iter
	Z      [L]Poly
	H      [K]Poly
	C      []byte
	Forced bool // a skipped check would have rejected the emitted iteration
}

// Sign is deterministic signing. maxIter bounds the loop (0 = 1000).
func (k *Key) Sign(msg []byte, skip Skip) *SignResult {
	mu := shake256(64, k.Tr, msg)
	rhoPP := shake256(64, k.KeySeed, mu)
	res := &SignResult{}
	for kappa := 0; kappa < 1000+skip.ForceReject; kappa++ {
		if kappa < skip.ForceReject {
			res.Path = append(res.Path, Iter{Exit: "forced"})
			continue
		}
		var y [L]Poly
		for i := 0; i < L; i++ {
			y[i] = ExpandMask(rhoPP, uint16(L*kappa+i))
		}
		var w [K]Poly
		var w1 [K]Poly
		for i := 0; i < K; i++ {
			for j := 0; j < L; j++ {
				m := Mul(&k.A[i][j], &y[j])
				w[i] = Add(&w[i], &m)
			}
			for c := 0; c < N; c++ {
				w1[i][c] = HighBits(w[i][c])
			}
		}
		var w1p []byte
		for i := 0; i < K; i++ {
			w1p = append(w1p, PackW1(&w1[i])...)
		}
		ctilde := shake256(32, mu, w1p)
		for x := range skip.ChallengeXor {
			if x < len(ctilde) {
				ctilde[x] ^= skip.ChallengeXor[x]
			}
		}
		c := SampleInBall(ctilde)
		var z [L]Poly
		for i := 0; i < L; i++ {
			m := Mul(&c, &k.S1[i])
			z[i] = Add(&y[i], &m)
		}
		it := Iter{}
		forced := false
		skip := skip
		if skip.OnlyIter > 0 && skip.OnlyIter != kappa+1 {
			skip = Skip{}
		}
		it.SlackZ = InfNorm(z[:]) - (GAMMA1 - BETA)
		if it.SlackZ >= 0 {
			if !skip.Z {
				it.Exit = "z"
				res.Path = append(res.Path, it)
				continue
			}
			forced = true
		}
		var r [K]Poly  // w - c*s2
		var r0 [K]Poly // its low bits
		for i := 0; i < K; i++ {
			m := Mul(&c, &k.S2[i])
			r[i] = Sub(&w[i], &m)
			for cc := 0; cc < N; cc++ {
				_, lo := Decompose(r[i][cc])
				r0[i][cc] = Mod(lo)
			}
		}
		it.SlackR0 = InfNorm(r0[:]) - (GAMMA2 - BETA)
		if it.SlackR0 >= 0 {
			if !skip.R0 {
				it.Exit = "r0"
				res.Path = append(res.Path, it)
				continue
			}
			forced = true
		}
		var ct0 [K]Poly
		for i := 0; i < K; i++ {
			ct0[i] = Mul(&c, &k.T0[i])
		}
		it.SlackCt0 = InfNorm(ct0[:]) - GAMMA2
		if it.SlackCt0 >= 0 {
			if !skip.Ct0 {
				it.Exit = "ct0"
				res.Path = append(res.Path, it)
				continue
			}
			forced = true
		}
		var h [K]Poly
		cnt := int64(0)
		for i := 0; i < K; i++ {
			for cc := 0; cc < N; cc++ {
				// hint = [HighBits(w - cs2 + ct0) != HighBits(w - cs2)]
				if HighBits(r[i][cc]+ct0[i][cc]) != HighBits(r[i][cc]) {
					h[i][cc] = 1
					cnt++
				}
			}
		}
		it.SlackHint = cnt - OMEGA
		if cnt > OMEGA {
			if !skip.Hint {
				it.Exit = "hint"
				res.Path = append(res.Path, it)
				continue
			}
			forced = true
		}
		it.Exit = "accept"
		res.Path = append(res.Path, it)
		sig := append([]byte(nil), ctilde...)
		for i := 0; i < L; i++ {
			sig = append(sig, PackZ(&z[i])...)
		}
		sig = append(sig, EncodeHint(&h)...)
		res.Sig, res.Z, res.H, res.C, res.Forced = sig, z, h, ctilde, forced
		return res
	}
	return res
}

// VerifyPK is the specification verifier on a packed public key.
func VerifyPK(pk, msg, sig []byte) bool {
	if len(pk) != PKBytes || len(sig) != SigBytes {
		return false
	}
	rho := pk[:32]
	var t1 [K]Poly
	for i := 0; i < K; i++ {
		t1[i] = UnpackT1(pk[32+320*i:])
	}
	ctilde := sig[:32]
	var z [L]Poly
	for i := 0; i < L; i++ {
		z[i] = UnpackZ(sig[32+640*i:])
	}
	h, ok := DecodeHint(sig[32+640*L:])
	if !ok {
		return false
	}
	if InfNorm(z[:]) >= GAMMA1-BETA {
		return false
	}
	A := ExpandA(rho)
	mu := shake256(64, shake256(32, pk), msg)
	c := SampleInBall(ctilde)
	var w1p []byte
	for i := 0; i < K; i++ {
		var az Poly
		for j := 0; j < L; j++ {
			m := Mul(&A[i][j], &z[j])
			az = Add(&az, &m)
		}
		var t Poly
		for cc := 0; cc < N; cc++ {
			t[cc] = Mod(t1[i][cc] << D)
		}
		ct := Mul(&c, &t)
		v := Sub(&az, &ct)
		var w1 Poly
		for cc := 0; cc < N; cc++ {
			w1[cc] = UseHint(h[i][cc], v[cc])
		}
		w1p = append(w1p, PackW1(&w1)...)
	}
	c2 := shake256(32, mu, w1p)
	for i := range c2 {
		if c2[i] != ctilde[i] {
			return false
		}
	}
	return true
}

// Weight of a hint vector.
func Weight(h *[K]Poly) int {
	n := 0
	for i := range h {
		for _, c := range h[i] {
			if c != 0 {
				n++
			}
		}
	}
	return n
}

// ExpandAEntry returns the NTT-domain entry (i,j) as sampled.
func ExpandAEntry(rho []byte, i, j int) (p Poly) {
	h := sha3.NewShake128()
	h.Write(rho)
	n := uint16(256*i + j)
	h.Write([]byte{byte(n), byte(n >> 8)})
	var b [3]byte
	for ctr := 0; ctr < N; {
		h.Read(b[:])
		t := int64(b[0]) | int64(b[1])<<8 | int64(b[2]&0x7F)<<16
		if t < Q {
			p[ctr] = t
			ctr++
		}
	}
	return
}

// EtaNeedsSecondBlock reports whether ExpandS needs more than the first 136-byte block.
func EtaNeedsSecondBlock(rhoPrime []byte, nonce uint16) bool {
	buf := shake256(136, rhoPrime, []byte{byte(nonce), byte(nonce >> 8)})
	ctr := 0
	for _, b := range buf {
		if b&15 < 15 {
			ctr++
		}
		if b>>4 < 15 {
			ctr++
		}
	}
	return ctr < N
}

// ---- lenient variants, used only to show that a rejected rogue input is refused for exactly one reason ----

type Lenient struct {
	SkipZNorm     bool // do not test ||z|| < gamma1 - beta
	AllowUnsorted bool // hint indices within a row need not increase
	AllowPadding  bool // bytes after the last hint index need not be zero
}

func DecodeHintLenient(b []byte, l Lenient) (h [K]Poly, ok bool) {
	k := 0
	for i := 0; i < K; i++ {
		end := int(b[OMEGA+i])
		if end < k || end > OMEGA {
			return h, false
		}
		for j := k; j < end; j++ {
			if !l.AllowUnsorted && j > k && b[j] <= b[j-1] {
				return h, false
			}
			h[i][b[j]] = 1
		}
		k = end
	}
	if !l.AllowPadding {
		for j := k; j < OMEGA; j++ {
			if b[j] != 0 {
				return h, false
			}
		}
	}
	return h, true
}

var aCache = map[string]*[K][L]Poly{}

func expandACached(rho []byte) *[K][L]Poly {
	if a, ok := aCache[string(rho)]; ok {
		return a
	}
	a := ExpandA(rho)
	if len(aCache) > 8 {
		aCache = map[string]*[K][L]Poly{}
	}
	aCache[string(rho)] = &a
	return &a
}

// VerifyLenient is VerifyPK with individual strictness checks switched off (and a cache for A).
func VerifyLenient(pk, msg, sig []byte, l Lenient) bool {
	if len(pk) != PKBytes || len(sig) != SigBytes {
		return false
	}
	h, ok := DecodeHintLenient(sig[32+640*L:], l)
	if !ok {
		return false
	}
	var z [L]Poly
	for i := 0; i < L; i++ {
		z[i] = UnpackZ(sig[32+640*i:])
	}
	if !l.SkipZNorm && InfNorm(z[:]) >= GAMMA1-BETA {
		return false
	}
	rho := pk[:32]
	var t1 [K]Poly
	for i := 0; i < K; i++ {
		t1[i] = UnpackT1(pk[32+320*i:])
	}
	ctilde := sig[:32]
	A := expandACached(rho)
	mu := shake256(64, shake256(32, pk), msg)
	c := SampleInBall(ctilde)
	var w1p []byte
	for i := 0; i < K; i++ {
		var az Poly
		for j := 0; j < L; j++ {
			m := Mul(&A[i][j], &z[j])
			az = Add(&az, &m)
		}
		var t Poly
		for cc := 0; cc < N; cc++ {
			t[cc] = Mod(t1[i][cc] << D)
		}
		ct := Mul(&c, &t)
		v := Sub(&az, &ct)
		var w1 Poly
		for cc := 0; cc < N; cc++ {
			w1[cc] = UseHint(h[i][cc], v[cc])
		}
		w1p = append(w1p, PackW1(&w1)...)
	}
	c2 := shake256(32, mu, w1p)
	for i := range c2 {
		if c2[i] != ctilde[i] {
			return false
		}
	}
	return true
}

// Verify is the strict specification verifier (cached matrix expansion).
func Verify(pk, msg, sig []byte) bool { return VerifyLenient(pk, msg, sig, Lenient{}) }

// ---- degenerate public keys (t1 = 0): anyone can produce accepted triples, with ANY hint vector ----

// ForgeForZeroT1 builds a (pk, sig) pair for msg that the specification verifier accepts, for the public key
// rho || pack(t1 = 0): with t1 = 0 the verifier computes w1' = UseHint(h, A z) independently of the challenge,
// so c~ = H(mu || w1') closes the loop. z and h are the caller's choice (||z|| < gamma1 - beta, weight(h) <= omega).
// It also returns A z (coefficient domain, [0,q)) so that callers can aim hints at chosen coefficients.
func ForgeForZeroT1(rho []byte, msg []byte, z *[L]Poly, h *[K]Poly) (pk, sig []byte, az [K]Poly) {
	pk = append([]byte(nil), rho...)
	var zero Poly
	for i := 0; i < K; i++ {
		pk = append(pk, PackT1(&zero)...)
	}
	A := expandACached(rho)
	mu := shake256(64, shake256(32, pk), msg)
	var w1p []byte
	for i := 0; i < K; i++ {
		for j := 0; j < L; j++ {
			m := Mul(&A[i][j], &z[j])
			az[i] = Add(&az[i], &m)
		}
		var w1 Poly
		for c := 0; c < N; c++ {
			w1[c] = UseHint(h[i][c], az[i][c])
		}
		w1p = append(w1p, PackW1(&w1)...)
	}
	ctilde := shake256(32, mu, w1p)
	sig = append([]byte(nil), ctilde...)
	for i := 0; i < L; i++ {
		sig = append(sig, PackZ(&z[i])...)
	}
	sig = append(sig, EncodeHint(h)...)
	return
}

// AzForZeroT1 returns A z only.
func AzForZeroT1(rho []byte, z *[L]Poly) (az [K]Poly) {
	A := expandACached(rho)
	for i := 0; i < K; i++ {
		for j := 0; j < L; j++ {
			m := Mul(&A[i][j], &z[j])
			az[i] = Add(&az[i], &m)
		}
	}
	return
}

// ExpandACoeff returns the matrix in the coefficient domain (cached).
func ExpandACoeff(rho []byte) *[K][L]Poly { return expandACached(rho) }

// InvMod returns a^-1 mod q.
func InvMod(a int64) int64 { return powmod(Mod(a), Q-2) }

// KeyBoundaries classifies boundary events of key generation:
// "t-wrap": some coefficient of A*s1 + s2 leaves [0,q) before reduction (needs the reduction to happen AFTER the addition);
// "p2r-tie": some coefficient of t has low part exactly +2^(d-1) (the rounding tie of Power2Round; t0 = +4096);
// "t-zero": some coefficient of t is exactly 0 or q-1.
func (k *Key) KeyBoundaries() []string {
	seen := map[string]bool{}
	for i := 0; i < K; i++ {
		for c := 0; c < N; c++ {
			v := k.AS1[i][c] + Centre(k.S2[i][c])
			if v < 0 || v >= Q {
				seen["t-wrap"] = true
			}
			t := Mod(v)
			if t == 0 || t == Q-1 {
				seen["t-zero"] = true
			}
			if _, a0 := Power2Round(t); a0 == 1<<(D-1) {
				seen["p2r-tie"] = true
			}
		}
	}
	var out []string
	for _, n := range []string{"t-wrap", "p2r-tie", "t-zero"} {
		if seen[n] {
			out = append(out, n)
		}
	}
	return out
}
