// Package refxmss is a plain, full-Merkle-tree implementation of QRL-XMSS written from the
// scheme description (DESIGN.md appendix A). It imports nothing from the library, keeps all
// 2^h leaves and the whole tree in memory and has no traversal state.
package refxmss

import (
	"crypto/sha256"
	"encoding/binary"
	"math/bits"

	"golang.org/x/crypto/sha3"
)

const N = 32

type Hash int

const (
	SHA2_256 Hash = 0
	SHAKE128 Hash = 1
	SHAKE256 Hash = 2
)

// WOTS parameters for Winternitz parameter w in {4,16,256}.
type WOTS struct {
	W, LogW, Len1, Len2, Len int
}

func NewWOTS(w int) WOTS {
	logW := bits.Len(uint(w)) - 1
	len1 := 256 / logW
	// len2 = floor(log2(len1*(w-1)) / logW) + 1
	v := len1 * (w - 1)
	l2 := bits.Len(uint(v)) - 1 // floor(log2 v)
	len2 := l2/logW + 1
	return WOTS{W: w, LogW: logW, Len1: len1, Len2: len2, Len: len1 + len2}
}

func (p WOTS) KeySize() int { return p.Len * N }
func SigSize(w, h int) int  { return 4 + 32 + NewWOTS(w).KeySize() + 32*h }

func toByte(x uint64, l int) []byte {
	b := make([]byte, l)
	for i := l - 1; i >= 0 && x != 0; i-- {
		b[i] = byte(x)
		x >>= 8
	}
	return b
}

// Supported reports whether hf is one of the three defined hash functions.
func Supported(hf Hash) bool { return hf == SHA2_256 || hf == SHAKE128 || hf == SHAKE256 }

func core(hf Hash, typ uint64, key, in []byte) []byte {
	buf := append(append(toByte(typ, 32), key...), in...)
	out := make([]byte, N)
	switch hf {
	case SHA2_256:
		s := sha256.Sum256(buf)
		copy(out, s[:])
	case SHAKE128:
		sha3.ShakeSum128(out, buf)
	case SHAKE256:
		sha3.ShakeSum256(out, buf)
	default:
		panic("refxmss: unsupported hash function")
	}
	return out
}

type Addr [8]uint32

func (a Addr) bytes() []byte {
	b := make([]byte, 32)
	for i, v := range a {
		binary.BigEndian.PutUint32(b[4*i:], v)
	}
	return b
}

func prf(hf Hash, key, in []byte) []byte { return core(hf, 3, key, in) }

func xor(a, b []byte) []byte {
	o := make([]byte, len(a))
	for i := range a {
		o[i] = a[i] ^ b[i]
	}
	return o
}

func F(hf Hash, x, pubSeed []byte, a Addr) []byte {
	a[7] = 0
	key := prf(hf, pubSeed, a.bytes())
	a[7] = 1
	mask := prf(hf, pubSeed, a.bytes())
	return core(hf, 0, key, xor(x, mask))
}

func H(hf Hash, lr, pubSeed []byte, a Addr) []byte {
	a[7] = 0
	key := prf(hf, pubSeed, a.bytes())
	a[7] = 1
	m0 := prf(hf, pubSeed, a.bytes())
	a[7] = 2
	m1 := prf(hf, pubSeed, a.bytes())
	return core(hf, 1, key, xor(lr, append(m0, m1...)))
}

// chain applies F for steps u = s .. s+t-1 (never beyond w-1).
func chain(hf Hash, p WOTS, x []byte, s, t int, pubSeed []byte, a Addr) []byte {
	out := append([]byte(nil), x...)
	for u := s; u < s+t && u < p.W; u++ {
		a[6] = uint32(u)
		out = F(hf, out, pubSeed, a)
	}
	return out
}

// Digits returns the len base-w digits (message digits + checksum digits) for a 32-byte digest.
func Digits(p WOTS, d []byte) []int {
	baseW := func(in []byte, n int) []int {
		out := make([]int, 0, n)
		total, nb, pos := 0, 0, 0
		for len(out) < n {
			if nb == 0 {
				total = int(in[pos])
				pos++
				nb = 8
			}
			nb -= p.LogW
			out = append(out, (total>>uint(nb))&(p.W-1))
		}
		return out
	}
	ds := baseW(d, p.Len1)
	csum := uint32(0)
	for _, x := range ds {
		csum += uint32(p.W - 1 - x)
	}
	csum <<= uint(8 - (p.Len2*p.LogW)%8)
	nb := (p.Len2*p.LogW + 7) / 8
	cb := make([]byte, nb)
	c := csum
	for i := nb - 1; i >= 0; i-- {
		cb[i] = byte(c)
		c >>= 8
	}
	return append(ds, baseW(cb, p.Len2)...)
}

func ltree(hf Hash, p WOTS, pk [][]byte, pubSeed []byte, leafIdx uint32) []byte {
	a := Addr{0, 0, 0, 1, leafIdx, 0, 0, 0}
	nodes := append([][]byte(nil), pk...)
	height := uint32(0)
	for len(nodes) > 1 {
		var next [][]byte
		for i := 0; i+1 < len(nodes); i += 2 {
			a[5], a[6] = height, uint32(i/2)
			next = append(next, H(hf, append(append([]byte(nil), nodes[i]...), nodes[i+1]...), pubSeed, a))
		}
		if len(nodes)%2 == 1 {
			next = append(next, nodes[len(nodes)-1])
		}
		nodes = next
		height++
	}
	return nodes[0]
}

type Key struct {
	Hf      Hash
	Hgt     int
	AddrFmt int
	SkSeed  []byte
	SkPRF   []byte
	PubSeed []byte
	Tree    [][][]byte // Tree[t][x]
	p       WOTS
}

func (k *Key) otsSeed(i uint32) []byte {
	a := Addr{0, 0, 0, 0, i, 0, 0, 0}
	return prf(k.Hf, k.SkSeed, a.bytes())
}

func (k *Key) wotsSK(i uint32) [][]byte {
	s := k.otsSeed(i)
	sk := make([][]byte, k.p.Len)
	for j := range sk {
		sk[j] = prf(k.Hf, s, toByte(uint64(j), 32))
	}
	return sk
}

// Leaf computes leaf i from scratch.
func (k *Key) Leaf(i uint32) []byte {
	sk := k.wotsSK(i)
	pk := make([][]byte, k.p.Len)
	for j := range sk {
		a := Addr{0, 0, 0, 0, i, uint32(j), 0, 0}
		pk[j] = chain(k.Hf, k.p, sk[j], 0, k.p.W-1, k.PubSeed, a)
	}
	return ltree(k.Hf, k.p, pk, k.PubSeed, i)
}

// NewKey builds the whole tree for (seed, h, hash).
func NewKey(seed []byte, h int, hf Hash) *Key {
	rb := make([]byte, 96)
	sha3.ShakeSum256(rb, seed)
	k := &Key{Hf: hf, Hgt: h, SkSeed: rb[0:32], SkPRF: rb[32:64], PubSeed: rb[64:96], p: NewWOTS(16)}
	k.Tree = make([][][]byte, h+1)
	k.Tree[0] = make([][]byte, 1<<uint(h))
	for i := range k.Tree[0] {
		k.Tree[0][i] = k.Leaf(uint32(i))
	}
	for t := 0; t < h; t++ {
		k.Tree[t+1] = make([][]byte, len(k.Tree[t])/2)
		for x := range k.Tree[t+1] {
			a := Addr{0, 0, 0, 2, 0, uint32(t), uint32(x), 0}
			k.Tree[t+1][x] = H(hf, append(append([]byte(nil), k.Tree[t][2*x]...), k.Tree[t][2*x+1]...), k.PubSeed, a)
		}
	}
	return k
}

func (k *Key) Root() []byte { return k.Tree[k.Hgt][0] }

func (k *Key) Desc() []byte {
	return []byte{byte(0<<4 | int(k.Hf)), byte(k.AddrFmt<<4 | k.Hgt/2), 0}
}

func (k *Key) PK() []byte {
	return append(append(k.Desc(), k.Root()...), k.PubSeed...)
}

func msgHash(hf Hash, R, root []byte, idx uint32, msg []byte) []byte {
	key := append(append(append([]byte(nil), R...), root...), toByte(uint64(idx), 32)...)
	return core(hf, 2, key, msg)
}

// Sign produces the signature at index i (no state).
func (k *Key) Sign(i uint32, msg []byte) []byte {
	R := prf(k.Hf, k.SkPRF, toByte(uint64(i), 32))
	d := msgHash(k.Hf, R, k.Root(), i, msg)
	ds := Digits(k.p, d)
	sk := k.wotsSK(i)
	sig := append(toByte(uint64(i), 4), R...)
	for j := range sk {
		a := Addr{0, 0, 0, 0, i, uint32(j), 0, 0}
		sig = append(sig, chain(k.Hf, k.p, sk[j], 0, ds[j], k.PubSeed, a)...)
	}
	for t := 0; t < k.Hgt; t++ {
		sig = append(sig, k.Tree[t][(i>>uint(t))^1]...)
	}
	return sig
}

// Verify is the spec-level verifier with Winternitz parameter w.
// It never panics: structurally invalid input is simply not accepted.
func Verify(msg, sig, pk []byte, w int) bool {
	if len(pk) != 67 {
		return false
	}
	hf := Hash(pk[0] & 0x0F)
	sigType := pk[0] >> 4
	h := int(pk[1]&0x0F) * 2
	if sigType != 0 || !Supported(hf) {
		return false
	}
	p := NewWOTS(w)
	if h < 4 || h%2 != 0 || len(sig) != 4+32+p.KeySize()+32*h {
		return false
	}
	root, pubSeed := pk[3:35], pk[35:67]
	idx := binary.BigEndian.Uint32(sig[0:4])
	R := sig[4:36]
	d := msgHash(hf, R, root, idx, msg)
	ds := Digits(p, d)
	wpk := make([][]byte, p.Len)
	for j := 0; j < p.Len; j++ {
		a := Addr{0, 0, 0, 0, idx, uint32(j), 0, 0}
		wpk[j] = chain(hf, p, sig[36+32*j:36+32*j+32], ds[j], p.W-1-ds[j], pubSeed, a)
	}
	node := ltree(hf, p, wpk, pubSeed, idx)
	auth := sig[36+p.KeySize():]
	li := idx
	for t := 0; t < h; t++ {
		a := Addr{0, 0, 0, 2, 0, uint32(t), li >> 1, 0}
		sib := auth[32*t : 32*t+32]
		if li&1 == 1 {
			node = H(hf, append(append([]byte(nil), sib...), node...), pubSeed, a)
		} else {
			node = H(hf, append(append([]byte(nil), node...), sib...), pubSeed, a)
		}
		li >>= 1
	}
	for i := range node {
		if node[i] != root[i] {
			return false
		}
	}
	return true
}

// ChainStep advances one WOTS chain value of a signature by one step (for the checksum attack).
func ChainStep(hf Hash, x []byte, step int, pubSeed []byte, leaf uint32, chainIdx int) []byte {
	a := Addr{0, 0, 0, 0, leaf, uint32(chainIdx), uint32(step), 0}
	return F(hf, x, pubSeed, a)
}

// Address formulas.
func Address(pk []byte) []byte {
	h := make([]byte, 32)
	sha3.ShakeSum256(h, pk)
	return append(append([]byte(nil), pk[0], pk[1], 0), h[15:]...)
}

func LegacyAddress(pk []byte) []byte {
	h1 := sha256.Sum256(pk)
	pre := append([]byte{pk[0], pk[1], 0}, h1[:]...)
	h2 := sha256.Sum256(pre)
	return append(pre, h2[28:]...)
}

// MsgDigits returns the 67 base-16 digits for (R, root, idx, msg).
func MsgDigits(hf Hash, R, root []byte, idx uint32, msg []byte) []int {
	return Digits(NewWOTS(16), msgHash(hf, R, root, idx, msg))
}

// Fabricate builds a (sig, pk) pair for msg that the specification verifier accepts, for ANY height h and leaf
// index idx, without generating a tree: one real WOTS key pair at leaf idx (derived from skSeed), an arbitrary
// authentication path, and the root obtained by climbing that path. Used to exercise verification at tall
// heights and large indices, where real keys cannot be generated.
func Fabricate(hf Hash, h int, idx uint32, msg, skSeed, skPRF, pubSeed []byte, auth func(level int) []byte) (sig []byte, pk []byte) {
	return FabricateW(hf, h, idx, msg, skSeed, skPRF, pubSeed, auth, 16)
}

// FabricateW is Fabricate for Winternitz parameter w in {4,16,256}. idx may name a leaf beyond 2^h-1: the
// specification's verification walk (node index = idx >> level, no range test) is followed literally.
func FabricateW(hf Hash, h int, idx uint32, msg, skSeed, skPRF, pubSeed []byte, auth func(level int) []byte, w int) (sig []byte, pk []byte) {
	p := NewWOTS(w)
	k := &Key{Hf: hf, Hgt: h, SkSeed: skSeed, SkPRF: skPRF, PubSeed: pubSeed, p: p}
	leaf := k.Leaf(idx)
	// climb
	node := leaf
	li := idx
	var path []byte
	for t := 0; t < h; t++ {
		sib := auth(t)
		path = append(path, sib...)
		a := Addr{0, 0, 0, 2, 0, uint32(t), li >> 1, 0}
		if li&1 == 1 {
			node = H(hf, append(append([]byte(nil), sib...), node...), pubSeed, a)
		} else {
			node = H(hf, append(append([]byte(nil), node...), sib...), pubSeed, a)
		}
		li >>= 1
	}
	root := node
	R := prf(hf, skPRF, toByte(uint64(idx), 32))
	d := msgHash(hf, R, root, idx, msg)
	ds := Digits(p, d)
	sk := k.wotsSK(idx)
	sig = append(toByte(uint64(idx), 4), R...)
	for j := range sk {
		a := Addr{0, 0, 0, 0, idx, uint32(j), 0, 0}
		sig = append(sig, chain(hf, p, sk[j], 0, ds[j], pubSeed, a)...)
	}
	sig = append(sig, path...)
	pk = append([]byte{byte(hf), byte(h / 2), 0}, root...)
	pk = append(pk, pubSeed...)
	return
}
