// Package seeds provides the fixed seed alphabet shared by the checks (no library imports).
package seeds

import (
	"fmt"

	"golang.org/x/crypto/sha3"
)

// Seed48: kind 0 zeros, 1 all FF, 2 counter pattern, >=3 derived from (kind, VERIF_SEED).
func Seed48(kind int, vseed int64) (s [48]byte) {
	switch kind {
	case 0:
	case 1:
		for i := range s {
			s[i] = 0xFF
		}
	case 2:
		for i := range s {
			s[i] = byte(i*5 + 1)
		}
	default:
		sha3.ShakeSum256(s[:], []byte(fmt.Sprintf("verif-xmss-seed-%d-%d", kind, vseed)))
	}
	return
}

// Bytes returns n deterministic filler bytes for (label, vseed).
func Bytes(n int, label string, vseed int64) []byte {
	b := make([]byte, n)
	sha3.ShakeSum256(b, []byte(fmt.Sprintf("verif-bytes-%s-%d", label, vseed)))
	return b
}
