#!/bin/bash
# MANIFEST.setup_cmd: builds the overlay generator and warms the Go build cache, offline.
set -e
HERE="$(cd "$(dirname "${BASH_SOURCE[0]}")" && pwd)"
export GOFLAGS=-mod=mod GOPROXY=off GOSUMDB=off GOTOOLCHAIN=local
mkdir -p "$HERE/bin" "$HERE/evidence" "$HERE/replays"
(cd "$HERE/mc" && go build -o "$HERE/bin/overlaygen" ./overlaygen)
# warm the cache: library + harness packages that need no hooks
(cd "$HERE/mc" && go build ./drv/... ./ref... 2>/dev/null || true)
(cd /repo && go build ./... >/dev/null 2>&1 || true)
# warm the race-detector build of the standard library and the library packages (C15's second build)
(cd /repo && go build -race ./... >/dev/null 2>&1 || true)
# warm the 32-bit build of the standard library and the library packages (C05's arch-386 domain)
(cd /repo && GOARCH=386 go build ./... >/dev/null 2>&1 || true)
echo "setup ok"
