#!/usr/bin/env python3
# Copies confirmed seeded changes from the sub-agents' scratch output into /verif/seeded/<id>/ and
# writes meta.json (what it breaks, what it needs, what was run, which check caught it).
import json,os,re,shutil,sys,glob
logs=sys.argv[1:]
res={}
cur=None
for lg in logs:
    for line in open(lg):
        m=re.match(r'== (C\d\d)[/-](\d+)',line)
        if m: cur=(m.group(1),m.group(2)); res.setdefault(cur,{'checks':{}}); continue
        if cur is None: continue
        r=res[cur]
        if line.startswith('demo-without-change'): r['demo_without']=line.split(':',1)[1].strip()
        if line.startswith('demo-with-change'): r['demo_with']=line.split(':',1)[1].strip()
        if line.startswith('repo-tests-with-change'): r['repo_tests']=line.split(':',1)[1].strip()
        m=re.match(r'(C\d\d) exit=(\d+)\s*(.*)',line)
        if m:
            r['checks'][m.group(1)]={'exit':int(m.group(2)),'first':m.group(3).strip()[:300]}
for (p,n),r in sorted(res.items()):
    dst='/verif/seeded/%s-%s'%(p,n)
    if not os.path.exists(dst+'/patch.diff'): continue
    am={}
    try: am=json.load(open(dst+'/agent_meta.json'))
    except Exception as e: pass
    old={}
    if os.path.exists(dst+'/meta.json'):
        old=json.load(open(dst+'/meta.json'))
    checks=old.get('checks_run',{}); checks.update(r['checks'])
    meta={'id':'%s-%s'%(p,n),'property':p,'author':'independent sub-agent given only the property text and a scratch worktree',
          'summary':am.get('summary'),'needs_to_manifest':am.get('needs_to_manifest'),'files_changed':am.get('files_changed'),
          'confirmed_by_me':{'repo_tests_with_change':r.get('repo_tests',old.get('confirmed_by_me',{}).get('repo_tests_with_change')),
                             'demo_without_change':r.get('demo_without',old.get('confirmed_by_me',{}).get('demo_without_change')),
                             'demo_with_change':r.get('demo_with',old.get('confirmed_by_me',{}).get('demo_with_change')),
                             'how':'tools/evalseed.sh: scratch copy of /repo, demo run without and with the patch, repo tests with the patch, then VERIF_REPO=<copy> ./check <ID> quick'},
          'checks_run':checks,
          'caught_by':[k for k,v in checks.items() if v['exit']==1],
          'agent_ran':am.get('ran')}
    json.dump(meta,open(dst+'/meta.json','w'),indent=1)
    print(p,n,meta['caught_by'],{k:v['exit'] for k,v in checks.items()})
