#!/bin/bash
# tools/evalall.sh [tier] : re-runs every seeded change under /verif/seeded against the check(s) of its
# property (seeded/<id>/checks.txt overrides the default = the property id) and rewrites seeded/<id>/meta.json.
HERE="$(cd "$(dirname "${BASH_SOURCE[0]}")/.." && pwd)"
TIER="${1:-quick}"
# usage: tools/evalall.sh [tier] [id-regex]; SKIP_CONFIRM=1 skips the demo / repo-test confirmation (already recorded)
RE="${2:-.}"
for d in "$HERE"/seeded/*/; do
  id=$(basename "$d"); p=${id%-*}
  echo "$id" | grep -Eq "$RE" || continue
  checks="$p"; [ -f "$d/checks.txt" ] && checks="$(cat "$d/checks.txt")"
  echo "== $id -> $checks"
  skip=""
  if [ -f "$d/meta.json" ] && grep -q '"demo_with_change": "fail' "$d/meta.json" && grep -q '"repo_tests_with_change": "pass' "$d/meta.json"; then skip=1; fi
  SKIP_CONFIRM="${SKIP_CONFIRM:-$skip}" "$HERE/tools/evalseed.sh" "$d" "$checks" "$TIER" 2>&1 | grep -E "demo-with|repo-tests|exit=|MUTANT"
done
