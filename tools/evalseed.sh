#!/bin/bash
# tools/evalseed.sh <outdir/n> <ID>[,<ID>..] [tier]
# Confirms a seeded change: applies it to a scratch copy of /repo, runs the repo tests (must pass),
# runs the demonstration with and without the change, then runs the named checks against the copy.
set -u
HERE="$(cd "$(dirname "${BASH_SOURCE[0]}")/.." && pwd)"
export GOFLAGS=-mod=mod GOPROXY=off GOSUMDB=off GOTOOLCHAIN=local
D="$(readlink -f "$1")"; IDS="$2"; TIER="${3:-quick}"
S="$(mktemp -d /tmp/seed-XXXXXX)"; trap 'rm -rf "$S"' EXIT
rsync -a --exclude .git /repo/ "$S/"
demo=$(ls "$D"/demo*_test.go "$D"/demo_test.go 2>/dev/null | head -1)
pkg=""
[ -n "${SKIP_CONFIRM:-}" ] && demo=""
if [ -n "$demo" ]; then
  pkg=$(grep -m1 '^package ' "$demo" | awk '{print $2}' | sed 's/_test$//')
  case "$pkg" in xmssjs|dilithiumjs) pkg="qrllib-js/$pkg";; esac
  cp "$demo" "$S/$pkg/zz_demo_test.go"
  if (cd "$S" && go test -vet=off -count=1 -run 'Demo' "./$pkg/" >"$S/.d0" 2>&1); then echo "demo-without-change: pass"; else echo "demo-without-change: FAIL"; tail -3 "$S/.d0"; fi
fi
# patch.rebased.diff: the same change re-expressed against the current /repo, kept when a later fix: commit touched the same lines
(cd "$S" && git init -q . 2>/dev/null; git -C "$S" apply "$D/patch.diff" 2>/dev/null || { [ -f "$D/patch.rebased.diff" ] && git -C "$S" apply "$D/patch.rebased.diff"; }) || { echo PATCH-FAILED; exit 3; }
rm -rf "$S/.git"
if [ -n "$demo" ]; then
  if (cd "$S" && go test -vet=off -count=1 -run 'Demo' "./$pkg/" >"$S/.d1" 2>&1); then echo "demo-with-change: pass (NOT a valid seed?)"; else echo "demo-with-change: fail (as intended)"; fi
  rm -f "$S/$pkg/zz_demo_test.go"
fi
if [ -n "${SKIP_CONFIRM:-}" ]; then (cd "$S" && go build ./...) || echo "MUTANT-DOES-NOT-BUILD"
elif (cd "$S" && go build ./... && go test -vet=off -count=1 ./... >"$S/.t" 2>&1); then echo "repo-tests-with-change: pass"; else echo "repo-tests-with-change: FAIL"; tail -5 "$S/.t"; fi
for ID in ${IDS//,/ }; do
  out="$(VERIF_REPO="$S" VERIF_EVIDENCE_DIR="$S/.evidence" VERIF_REPLAYS_DIR="$S/.replays" "$HERE/check" "$ID" "$TIER" 2>&1)"; r=$?
  echo "$ID exit=$r $(echo "$out" | grep -m2 -E '^  domain=|INFRA' | tr '\n' ' ' | cut -c1-300)"
done
