#!/usr/bin/env python3
# Prints a markdown summary of /verif/evidence/*.json (used for DESIGN.md §9.8).
import json,glob
print('| id | tier | domains | evaluations | states | transitions | traces validated | exhaustive | wall s |')
print('|---|---|---|---|---|---|---|---|---|')
for f in sorted(glob.glob('/verif/evidence/C*.json')):
    d=json.load(open(f)); c=d['coverage']
    print(f"| {d['property_id']} | {d['tier']} | {len(c.get('domains',[]))} | {c.get('evaluations'):,} | {c.get('states','—')} | {c.get('transitions','—')} | {c.get('traces_validated_against_impl','—')} | {c.get('exhaustive')} | {d['wall_s']:.0f} |")
