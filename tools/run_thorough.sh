#!/bin/bash
# tools/run_thorough.sh [IDs...] : runs the thorough tier of every check (evidence into a scratch dir), prints time and verdict.
HERE="$(cd "$(dirname "${BASH_SOURCE[0]}")/.." && pwd)"
IDS="${*:-C01 C02 C03 C04 C05 C06 C07 C08 C09 C10 C11 C12 C13 C14 C15 C16}"
OUT="$(mktemp -d /tmp/thorough-XXXXXX)"
for id in $IDS; do
  s=$(date +%s)
  VERIF_EVIDENCE_DIR="$OUT" VERIF_REPLAYS_DIR="$OUT/replays" "$HERE/check" "$id" thorough > "$OUT/$id.log" 2>&1; r=$?
  e=$(date +%s)
  echo "$id exit=$r $((e-s))s $(grep -m1 '^property=' "$OUT/$id.log" | cut -c1-200)"
  grep -E "VIOLATION|INFRA|warning" "$OUT/$id.log" | head -5
done
echo "evidence and logs in $OUT"
