#!/usr/bin/env python3
# validates MANIFEST.json and evidence/*.json against the schemas in /root/.vp (development aid)
import json,sys,glob
import jsonschema
S='/root/.vp/'
ok=True
def v(path,schema):
    global ok
    try:
        jsonschema.validate(json.load(open(path)),json.load(open(S+schema)))
        print('ok  ',path)
    except Exception as e:
        ok=False; print('FAIL',path,str(e)[:400])
v('/verif/MANIFEST.json','MANIFEST.schema.json')
for f in sorted(glob.glob('/verif/evidence/*.json')): v(f,'EVIDENCE.schema.json')
sys.exit(0 if ok else 1)
